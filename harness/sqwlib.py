"""Shared machinery of the SQW checks (C12, C13): case generator, real builder runner, an
independent Python decoder of the SQW container, canonical dumps (same text as the Lean driver
prints), protocol lines for the Lean encoder, and helpers for the direct oracles.

The decoder here is written from the format description only: it imports nothing from
scippneutron.
"""
from __future__ import annotations

import math
import os
import struct
import sys
from fractions import Fraction
from io import BytesIO

import numpy as np

# ------------------------------------------------------------------------------------------
# exact unit ratios (to the unit the format stores)
# ------------------------------------------------------------------------------------------
# pi to 60 digits as an exact rational: enough to decide float64 roundings of x*pi/180
PI = Fraction(314159265358979323846264338327950288419716939937510582097494, 10**59)

MOMENTUM_UNITS = {'1/angstrom': Fraction(1), '1/nm': Fraction(1, 10), '10/angstrom': Fraction(10),
                  '1/um': Fraction(1, 10**4), '1/fm': Fraction(10**5)}
ENERGY_UNITS = {'meV': Fraction(1), 'ueV': Fraction(1, 1000), 'eV': Fraction(1000),
                'J': Fraction(10**31, 1602176634)}
ANGLE_TO_RAD = {'rad': Fraction(1), 'deg': PI / 180}
ANGLE_TO_DEG = {'deg': Fraction(1), 'rad': 180 / PI}
LENGTH_UNITS = {'angstrom': Fraction(1), 'nm': Fraction(10), 'pm': Fraction(1, 100)}
COUNT_UNITS = {'count': Fraction(1), 'mega count': Fraction(10**6)}

ROW_NAMES = ('u1', 'u2', 'u3', 'u4', 'irun', 'idet', 'ien', 'signal', 'error')
ROW_TARGET_UNITS = {'u1': '1/angstrom', 'u2': '1/angstrom', 'u3': '1/angstrom', 'u4': 'meV',
                    'irun': None, 'idet': None, 'ien': None, 'signal': 'count', 'error': 'count**2'}
ERROR_UNITS = {'count**2': Fraction(1), '(mega count)**2': Fraction(10**12)}
ROW_FAMILY = {'u1': MOMENTUM_UNITS, 'u2': MOMENTUM_UNITS, 'u3': MOMENTUM_UNITS, 'u4': ENERGY_UNITS,
              'irun': None, 'idet': None, 'ien': None, 'signal': COUNT_UNITS, 'error': ERROR_UNITS}


def f64bits(x: float) -> int:
    return struct.unpack('<Q', struct.pack('<d', float(x)))[0]


def bits_f64(b: int) -> float:
    return struct.unpack('<d', struct.pack('<Q', b))[0]


def f32bits(x) -> int:
    return struct.unpack('<I', struct.pack('<f', x))[0]


def bits_f32(b: int) -> float:
    return struct.unpack('<f', struct.pack('<I', b))[0]


def hx(b: bytes) -> str:
    return b.hex() if b else '-'


# ------------------------------------------------------------------------------------------
# independent decoder
# ------------------------------------------------------------------------------------------
class DecodeError(Exception):
    def __init__(self, kind: str, index: int | None = None):
        self.kind = kind
        self.index = index
        super().__init__(kind if index is None else f'{kind}:{index}')

    def __str__(self):
        return 'err:' + (self.kind if self.index is None else f'{self.kind}:{self.index}')


class _Short(Exception):
    pass


class Cursor:
    def __init__(self, data: bytes, order: str, pos: int = 0, end: int | None = None):
        self.d = data
        self.o = order
        self.p = pos
        self.end = len(data) if end is None else end

    def take(self, n: int) -> bytes:
        if self.p + n > self.end:
            raise _Short()
        b = self.d[self.p:self.p + n]
        self.p += n
        return b

    def uint(self, w: int) -> int:
        return int.from_bytes(self.take(w), self.o)

    def char_array(self) -> bytes:
        return self.take(self.uint(4))


def volume(shape) -> int:
    if not shape:
        return 0
    v = 1
    for d in shape:
        v *= d
    return v


def struct_cell_shape(nf: int, n: int):
    return [nf, 1] if n == 1 else [nf, 1, n]


def dec_obj(c: Cursor, depth: int = 0):
    """-> ('C',shape,[bytes]) | ('F',shape,[bits]) | ('L',shape,[bool]) | ('K',shape,[obj]) |
    ('S',shape,n,[names],[fields]).  Raises _Short / ValueError on malformed input."""
    if depth > 200:
        raise ValueError('nesting')
    tag = c.uint(1)
    if tag == 32:
        if c.p >= c.end or c.d[c.p] != 24:
            raise ValueError('serializable tag not followed by a struct array')
        return dec_obj(c, depth + 1)
    ndim = c.uint(1)
    shape = [c.uint(4) for _ in range(ndim)]
    vol = volume(shape)
    if tag == 1:
        return ('C', shape, [c.take(vol)])
    if tag == 3:
        raw = c.take(8 * vol)
        return ('F', shape, [int.from_bytes(raw[8 * i:8 * i + 8], c.o) for i in range(vol)])
    if tag == 0:
        return ('L', shape, [b != 0 for b in c.take(vol)])
    if tag == 23:
        return ('K', shape, [dec_obj(c, depth + 1) for _ in range(vol)])
    if tag == 24:
        if vol == 0:
            return ('S', shape, 0, [], [])
        nf = c.uint(4)
        lens = [c.uint(4) for _ in range(nf)]
        names = [c.take(n) for n in lens]
        if c.uint(1) != 23:
            raise ValueError('struct values are not a cell array')
        cnd = c.uint(1)
        cshape = [c.uint(4) for _ in range(cnd)]
        if cshape != struct_cell_shape(nf, vol):
            raise ValueError('cell shape of struct values')
        return ('S', shape, vol, names, [dec_obj(c, depth + 1) for _ in range(nf * vol)])
    raise ValueError(f'unknown type tag {tag}')


def deduce_order(data: bytes) -> str:
    b = data[:4]
    return 'little' if int.from_bytes(b, 'little') < int.from_bytes(b, 'big') else 'big'


def decode_file(data: bytes, keep_pix: bool = True) -> dict:
    """Strict decoder; raises DecodeError with the same error enum as the Lean decoder."""
    o = deduce_order(data)
    c = Cursor(data, o)
    try:
        prog = c.char_array()
        ver = c.uint(8)
        ty = c.uint(4)
        nd = c.uint(4)
    except _Short:
        raise DecodeError('truncated') from None
    if prog != b'horace' or ver != 0x4010000000000000 or ty != 1:
        raise DecodeError('header')
    header_len = c.p
    try:
        bat_size = c.uint(4)
        after_size = c.p
        n = c.uint(4)
    except _Short:
        raise DecodeError('truncated') from None
    descs = []
    for i in range(n):
        try:
            t = c.char_array()
            n0 = c.char_array()
            n1 = c.char_array()
            pos = c.uint(8)
            size = c.uint(4)
            locked = c.uint(4)
        except _Short:
            raise DecodeError('bat-entry', i) from None
        descs.append({'ty': t, 'n0': n0, 'n1': n1, 'pos': pos, 'size': size, 'locked': locked})
    if bat_size != c.p - after_size:
        raise DecodeError('bat-size')
    data_start = c.p
    p = data_start
    blocks = []
    for i, d in enumerate(descs):
        if d['pos'] != p:
            raise DecodeError('extent-gap', i)
        if p + d['size'] > len(data):
            raise DecodeError('extent-short', i)
        blocks.append(decode_block(data, o, i, d['ty'], p, d['size'], keep_pix))
        p += d['size']
    if p != len(data):
        raise DecodeError('extent-end')
    return {'order': o, 'prog': prog, 'version': ver, 'type': ty, 'ndims': nd, 'header_len': header_len,
            'bat_size': bat_size, 'data_start': data_start, 'descs': descs, 'blocks': blocks}


def decode_block(data: bytes, o: str, i: int, ty: bytes, pos: int, size: int, keep_pix: bool = True):
    c = Cursor(data, o, pos, pos + size)
    try:
        if ty == b'data_block':
            out = ('R', dec_obj(c))
        elif ty == b'pix_data_block':
            nrows = c.uint(4)
            npix = c.uint(8)
            raw = c.take(4 * nrows * npix)
            arr = np.frombuffer(raw, dtype=('<u4' if o == 'little' else '>u4')).astype(np.uint32)
            out = ('P', nrows, npix, arr)
        elif ty == b'dnd_data_block':
            nd = c.uint(4)
            shape = [c.uint(4) for _ in range(nd)]
            n = 1
            for s in shape:
                n *= s
            arrs = []
            for _ in range(3):
                raw = c.take(8 * n)
                arrs.append([int.from_bytes(raw[8 * k:8 * k + 8], o) for k in range(n)])
            out = ('D', shape, *arrs)
        else:
            raise DecodeError('block-type', i)
    except (_Short, ValueError):
        raise DecodeError('block-decode', i) from None
    if c.p != c.end:
        raise DecodeError('block-trailing', i)
    return out


# ---- canonical dump (must equal the text of lean/ScnVerif/Driver/C12.lean) -----------------
def shape_str(s) -> str:
    return '[' + 'x'.join(str(d) for d in s) + ']'


def dump_obj(x) -> str:
    k = x[0]
    if k == 'C':
        return 'C' + shape_str(x[1]) + '(' + ','.join(hx(s) for s in x[2]) + ')'
    if k == 'F':
        return 'F' + shape_str(x[1]) + '(' + ','.join('%016x' % v for v in x[2]) + ')'
    if k == 'L':
        return 'L' + shape_str(x[1]) + '(' + ''.join('1' if b else '0' for b in x[2]) + ')'
    if k == 'K':
        return 'K' + shape_str(x[1]) + '{' + ''.join(dump_obj(i) for i in x[2]) + '}'
    if k == 'S':
        return ('S' + shape_str(x[1]) + '<' + str(x[2]) + '>(' + ','.join(hx(n) for n in x[3]) + '){'
                + ''.join(dump_obj(i) for i in x[4]) + '}')
    raise ValueError(k)


def dump_content(b) -> str:
    if b[0] == 'R':
        return 'R:' + dump_obj(b[1])
    if b[0] == 'P':
        return f'P:{b[1]}:{b[2]}:' + ','.join('%08x' % int(v) for v in b[3])
    if b[0] == 'D':
        return ('D:' + shape_str(b[1]) + ':' + ','.join('%016x' % v for v in b[2]) + ':'
                + ','.join('%016x' % v for v in b[3]) + ':' + ','.join('%016x' % v for v in b[4]))
    raise ValueError(b[0])


def dump_file(f: dict) -> str:
    return (f"ok order={f['order']} hdr={hx(f['prog'])},{f['version']:016x},{f['type']},{f['ndims']} "
            f"bat={f['bat_size']} descs="
            + ';'.join(f"{hx(d['ty'])}:{hx(d['n0'])}:{hx(d['n1'])}:{d['pos']}:{d['size']}:{d['locked']}" for d in f['descs'])
            + ' blocks=' + ';'.join(dump_content(b) for b in f['blocks']))


def decode_dump(data: bytes) -> str:
    try:
        return dump_file(decode_file(data))
    except DecodeError as e:
        return str(e)


# ---- access helpers on decoded trees ------------------------------------------------------
def struct_fields(s, k: int = 0) -> dict:
    """fields of the k-th struct of an ('S', …) array as {name(str): obj}"""
    assert s[0] == 'S'
    names = s[3]
    nf = len(names)
    vals = s[4][k * nf:(k + 1) * nf]
    return {n.decode('utf-8', 'replace'): v for n, v in zip(names, vals)}


def as_str(x) -> str | None:
    if x[0] != 'C' or len(x[2]) != 1:
        return None
    try:
        return x[2][0].decode('utf-8')
    except UnicodeDecodeError:
        return None


def as_f64s(x):
    return [bits_f64(b) for b in x[2]] if x[0] == 'F' else None


def block_by_name(f: dict, n0: str, n1: str):
    for d, b in zip(f['descs'], f['blocks']):
        if d['n0'] == n0.encode() and d['n1'] == n1.encode():
            return d, b
    return None, None


# ------------------------------------------------------------------------------------------
# case generation
# ------------------------------------------------------------------------------------------
_ALPHA = 'abcdefghijklmnopqrstuvwxyzABCDEFGHIJKLMNOPQRSTUVWXYZ0123456789 _-./:()[]'


def rand_str(rng, lo=0, hi=300, alphabet=_ALPHA) -> str:
    r = rng.random()
    if r < 0.15:
        n = 0
    elif r < 0.7:
        n = rng.randint(lo, min(hi, 24))
    elif r < 0.9:
        n = rng.randint(lo, hi)
    else:
        n = rng.choice([1, 2, 255, 256, 257, hi])
    n = max(lo, min(hi, n))
    return ''.join(rng.choice(alphabet) for _ in range(n))


def rand_f(rng, lo=1e-3, hi=1e3, signed=True) -> float:
    r = rng.random()
    if r < 0.1:
        return 0.0
    if r < 0.2:
        return float(rng.randint(-50, 50))
    v = math.exp(rng.uniform(math.log(lo), math.log(hi)))
    return -v if signed and rng.random() < 0.4 else v


DTYPES = ('float64', 'float64', 'float32', 'int64', 'int32')


def typed_value(rng, v: float, dt: str) -> float:
    """the value `v` as it exists in dtype `dt` (exactly representable as a Python float);
    integer dtypes get a whole number of moderate size, so that it is not whole in another unit"""
    if dt.startswith('int'):
        return float(rng.randint(-999, 999) if v < 0 else rng.randint(0, 999))
    if dt == 'float32':
        return float(np.float32(v))
    return float(v)


def typed_array(vals, dt: str):
    return np.asarray(vals, dtype='float64').astype(dt)


def gen_run(rng, i: int, nen: int, indirect_ok: bool) -> dict:
    eu = rng.choice(list(ENERGY_UNITS))
    run = {
        'run_id': i if rng.random() < 0.8 else rng.randint(0, 10**6),
        'emode': 1, 'efix_unit': rng.choice(list(ENERGY_UNITS)), 'efix': [rand_f(rng, 0.1, 500, False)],
        'efix_scalar': True,
        'en_unit': eu, 'en': [rand_f(rng, 1e-3, 500) for _ in range(nen)], 'en_2d': None,
        'u': [rand_f(rng) for _ in range(3)], 'v': [rand_f(rng) for _ in range(3)],
        'filename': rand_str(rng, 0, 60), 'filepath': rand_str(rng, 0, 120),
    }
    for a in ('psi', 'omega', 'dpsi', 'gl', 'gs'):
        unit = rng.choice(['rad', 'deg'])
        val = rng.choice([0.0, 90.0, 180.0, -45.0, 1.0]) if rng.random() < 0.25 else rng.uniform(-360, 360) * (1 if unit == 'deg' else math.pi / 180)
        dt = rng.choice(DTYPES)
        run[a] = [typed_value(rng, val, dt), unit, dt]
    if indirect_ok and rng.random() < 0.35:
        run['emode'] = 2
        if rng.random() < 0.7:
            ndet = rng.randint(2, 5)
            run['efix'] = [rand_f(rng, 0.1, 500, False) for _ in range(ndet)]
            run['efix_scalar'] = False
            if rng.random() < 0.3:
                # per-detector energy transfer (2-d): written, but outside what the reader supports
                run['en_2d'] = [ndet, nen, rng.random() < 0.5]  # transposed input layout?
                run['en'] = [rand_f(rng, 1e-3, 500) for _ in range(ndet * nen)]
    run['efix_dtype'] = rng.choice(DTYPES)
    run['en_dtype'] = rng.choice(DTYPES)
    run['efix'] = [typed_value(rng, v, run['efix_dtype']) for v in run['efix']]
    run['en'] = [typed_value(rng, v, run['en_dtype']) for v in run['en']]
    return run


def gen_pix_op(rng, npix: int | None = None, nruns: int | None = None, unit_scale: bool = True) -> dict:
    if npix is None:
        npix = rng.choice([0, 1, 2, 3, 7, 8, 9, 10, 11, 17, 18, 19, 27, 64, 100, 257, 1000])
    if nruns is None:
        nruns = rng.choice([1, 1, 2, 3, 5, 20, rng.randint(1, 20)])
    nen = rng.choice([1, 1, 2, 3, 6])
    units = {'u1': '1/angstrom', 'u2': '1/angstrom', 'u3': '1/angstrom', 'u4': 'meV', 'signal': 'count'}
    if unit_scale and rng.random() < 0.6:
        for r in ('u1', 'u2', 'u3'):
            units[r] = rng.choice(list(MOMENTUM_UNITS))
        units['u4'] = rng.choice(list(ENERGY_UNITS))
        units['signal'] = rng.choice(list(COUNT_UNITS))
    op = {'k': 'P', 'npix': npix, 'seed': rng.getrandbits(32), 'units': units,
          'kind': rng.choice(['uniform', 'log', 'midpoint', 'f32exact', 'int']),
          'ndims': 4 if rng.random() < 0.8 else rng.randint(0, 4),
          'runs': [gen_run(rng, i, nen, True) for i in range(nruns)]}
    # dtype of every coordinate and of the data, independent of the units
    op['dtypes'] = {c: rng.choice(DTYPES) for c in ('u1', 'u2', 'u3', 'u4')}
    op['dtypes']['data'] = rng.choice(['float64', 'float64', 'float32'])
    for c in ('irun', 'idet', 'ien'):
        op['dtypes'][c] = rng.choice(['int64', 'int32'])
    # custom selection of rows (fewer / more than nine, reordered, repeated) and custom stored units
    op['rows'] = op['row_units'] = None
    if unit_scale and rng.random() < 0.35:
        k = rng.choice([1, 2, 3, 5, 8, 9, 10, 11, 12])
        if rng.random() < 0.3:
            rows = list(ROW_NAMES)
            rng.shuffle(rows)
            rows = (rows * 2)[:k]
        else:
            rows = [rng.choice(ROW_NAMES) for _ in range(k)]
        tgt = []
        for r in rows:
            fam = ROW_FAMILY[r]
            if fam is None:
                tgt.append(None)
            elif rng.random() < 0.4:
                tgt.append(rng.choice(list(fam)))
            else:
                tgt.append(ROW_TARGET_UNITS[r])
        op['rows'], op['row_units'] = rows, tgt
    # integer-typed rows: keep |value| x ratio inside int32, so that the conversion of the code under test cannot
    # overflow (an overflowing integer conversion is not monotone, min/max would not commute with it)
    for sp in pix_spec(op):
        if sp['dtype'].startswith('int') and 1000 * sp['ratio'] >= 2**30:
            op['units'][sp['name']] = ROW_TARGET_UNITS[sp['name']]
            if op['rows']:
                op['row_units'] = [ROW_TARGET_UNITS[r] if r == sp['name'] else t for r, t in zip(op['rows'], op['row_units'])]
    return op


def gen_dnd_op(rng) -> dict:
    op = _gen_dnd_op(rng)
    # dtype of every scalar / range, independent of its unit
    for part, key in (('axes', 'img_scales'), ('axes', 'img_range'), ('axes', 'offset'), ('proj', 'offset')):
        dts = [rng.choice(DTYPES) for _ in range(4)]
        op[part][key + '_dtypes'] = dts
        if key == 'img_range':
            op[part][key] = [sorted(typed_value(rng, v, dt) for v in pair) for pair, dt in zip(op[part][key], dts)]
        else:
            op[part][key] = [typed_value(rng, v, dt) for v, dt in zip(op[part][key], dts)]
    return op


def _gen_dnd_op(rng) -> dict:
    mu = lambda: rng.choice(list(MOMENTUM_UNITS))  # noqa: E731
    eu = lambda: rng.choice(list(ENERGY_UNITS))  # noqa: E731
    units4 = lambda: [mu(), mu(), mu(), eu()]  # noqa: E731
    w = None if rng.random() < 0.5 else [rand_f(rng) for _ in range(3)]
    return {'k': 'N',
            'axes': {'title': rand_str(rng), 'label': [rand_str(rng, 0, 12) for _ in range(4)],
                     'img_scales': [rand_f(rng, 1e-3, 1e3, False) for _ in range(4)], 'img_scales_units': units4(),
                     'img_range': [sorted([rand_f(rng), rand_f(rng)]) for _ in range(4)], 'img_range_units': units4(),
                     'n_bins': [rng.choice([1, 1, 2, 3, 4, 5]) for _ in range(4)],
                     'single_bin': [rng.random() < 0.5 for _ in range(4)],
                     'dax': rng.sample(range(4), 4),
                     'offset': [rand_f(rng) for _ in range(4)], 'offset_units': units4(),
                     'changes_aspect_ratio': rng.random() < 0.5},
            'proj': {'alatt': [rand_f(rng, 0.5, 30, False) or 1.0 for _ in range(3)], 'alatt_unit': rng.choice(list(LENGTH_UNITS)),
                     'angdeg': [rng.choice([90.0, 60.0, 120.0, rng.uniform(30, 150)]) for _ in range(3)], 'angdeg_unit': 'deg',
                     'offset': [rand_f(rng) for _ in range(4)], 'offset_units': units4(),
                     'title': rand_str(rng), 'label': [rand_str(rng, 0, 12) for _ in range(4)],
                     'u': [rand_f(rng) for _ in range(3)], 'u_unit': mu(),
                     'v': [rand_f(rng) for _ in range(3)], 'v_unit': mu(),
                     'w': w, 'w_unit': mu(), 'non_orthogonal': rng.random() < 0.5}}


def gen_instrument_op(rng) -> dict:
    return {'k': 'I', 'name': rand_str(rng), 'source_name': rand_str(rng, 0, 40), 'target_name': rand_str(rng, 0, 40),
            'frequency': rand_f(rng, 0.1, 1e3, False)}


def gen_sample_op(rng) -> dict:
    au = rng.choice(['deg', 'rad'])
    ang = [rng.choice([90.0, 60.0, 120.0, rng.uniform(30, 150)]) for _ in range(3)]
    if au == 'rad':
        ang = [a * math.pi / 180 for a in ang]
    return {'k': 'S', 'name': rand_str(rng), 'alatt': [rand_f(rng, 0.5, 30, False) or 2.5 for _ in range(3)],
            'alatt_unit': rng.choice(list(LENGTH_UNITS)), 'angdeg': ang, 'angdeg_unit': au}


def gen_op(rng, kind: str) -> dict:
    if kind == 'P':
        return gen_pix_op(rng)
    if kind == 'N':
        return gen_dnd_op(rng)
    if kind == 'I':
        return gen_instrument_op(rng)
    if kind == 'S':
        return gen_sample_op(rng)
    return {'k': 'D'}


KINDS = 'PISND'


def chunk_choices(npix: int):
    return sorted({c for c in (1, 2, 3, 8, 9, 10, npix - 1, npix, npix + 1, 8192, 100000) if c >= 1})


def gen_case(rng, ident: int, kinds=None, perm=None) -> dict:
    if kinds is None:
        kinds = [k for k in KINDS if rng.random() < 0.6]
    ops = [gen_op(rng, k) for k in kinds]
    # repeated calls (the last one of a kind wins)
    if ops and rng.random() < 0.3:
        for _ in range(rng.randint(1, 2)):
            k = rng.choice(kinds)
            ops.insert(rng.randint(0, len(ops)), gen_op(rng, k))
    if perm is None:
        rng.shuffle(ops)
    else:
        ops = [ops[i] for i in perm]
    npix = 0
    for op in ops:
        if op['k'] == 'P':
            npix = op['npix']
    case = {'id': ident, 'order': rng.choice(['native', 'little', 'big']),
            'target': rng.choice(['bytesio', 'bytesio', 'file']),
            'dirs': [], 'fname': 'f.sqw', 'title': rand_str(rng),
            'chunk': rng.choice([None] + chunk_choices(npix)), 'ops': ops}
    case['history'] = gen_history(rng, case['target'])
    if case['target'] == 'file':
        if rng.random() < 0.3:
            case['dirs'] = [rand_str(rng, 1, 80, 'abcdefghijklmnopqrstuvwxyz0123456789_- ') or 'd' for _ in range(rng.randint(1, 3))]
        case['fname'] = (rand_str(rng, 1, 200, 'abcdefghijklmnopqrstuvwxyz0123456789_-. ') or 'x').strip('. ') + '.sqw'
    return case


_NON_ASCII = 'Åé⁻¹µλ日本😀ßΔ'
_STRING_KEYS = {'title', 'name', 'source_name', 'target_name', 'filename', 'filepath'}


def inject_non_ascii(rng, obj):
    """put characters outside ASCII into some of the free-text strings of a case (in place)"""
    if isinstance(obj, dict):
        for k, v in obj.items():
            if k in _STRING_KEYS and isinstance(v, str) and rng.random() < 0.6:
                pos = rng.randint(0, len(v))
                obj[k] = v[:pos] + ''.join(rng.choice(_NON_ASCII) for _ in range(rng.randint(1, 4))) + v[pos:]
            elif k == 'label' and isinstance(v, list):
                obj[k] = [x + rng.choice(_NON_ASCII) if rng.random() < 0.5 else x for x in v]
            else:
                inject_non_ascii(rng, v)
    elif isinstance(obj, list):
        for v in obj:
            inject_non_ascii(rng, v)


def has_non_ascii(obj) -> bool:
    if isinstance(obj, str):
        return not obj.isascii()
    if isinstance(obj, dict):
        return any(has_non_ascii(v) for v in obj.values())
    if isinstance(obj, list):
        return any(has_non_ascii(v) for v in obj)
    return False


def asciified(obj):
    """copy of a case with every character outside ASCII replaced by 'x'"""
    if isinstance(obj, str):
        return ''.join(ch if ch.isascii() else 'x' for ch in obj)
    if isinstance(obj, dict):
        return {k: asciified(v) for k, v in obj.items()}
    if isinstance(obj, list):
        return [asciified(v) for v in obj]
    return obj


def gen_case_non_ascii(rng, ident: int) -> dict:
    c = gen_case(rng, ident)
    c['target'] = 'bytesio' if rng.random() < 0.7 else 'file'
    while not has_non_ascii({k: v for k, v in c.items() if k not in ('fname', 'dirs')}):
        c['title'] = c['title'] + rng.choice(_NON_ASCII)
        inject_non_ascii(rng, c['ops'])
    return c


# ------------------------------------------------------------------------------------------
# pixel values
# ------------------------------------------------------------------------------------------
def pixel_rows(op: dict) -> dict:
    """name -> numpy array of supplied values (float64 or int64), deterministically from the op"""
    n = op['npix']
    g = np.random.default_rng(op['seed'])
    kind = op['kind']
    rows = {}
    for name in ('u1', 'u2', 'u3', 'u4', 'signal', 'error'):
        if kind == 'uniform':
            v = g.uniform(-100, 100, n)
        elif kind == 'log':
            v = np.exp(g.uniform(math.log(1e-12), math.log(1e12), n)) * g.choice([-1.0, 1.0], n)
        elif kind == 'midpoint':
            # exactly half way between two neighbouring float32 values (ties-to-even decides)
            base = g.uniform(-100, 100, n).astype(np.float32)
            nxt = np.nextafter(base, np.float32(np.inf))
            v = (base.astype(np.float64) + nxt.astype(np.float64)) / 2.0
        elif kind == 'f32exact':
            v = g.uniform(-1000, 1000, n).astype(np.float32).astype(np.float64)
        else:
            v = g.integers(-1000, 1000, n).astype(np.float64)
        if name in ('signal', 'error'):
            v = np.abs(v)
        v = v + 0.0  # no negative zeros
        v[v == 0] = 0.0
        ints = g.integers(0 if name in ('signal', 'error') else -1000, 1000, n)
        dt = _row_dtype(op, name)
        if dt.startswith('int'):
            v = ints.astype(dt)
        else:
            v = v.astype(dt)
        rows[name] = v
    nruns = max(1, len(op['runs']))
    rows['irun'] = g.integers(0, nruns, n).astype(_row_dtype(op, 'irun'))
    rows['idet'] = g.integers(0, 100000, n).astype(_row_dtype(op, 'idet'))
    rows['ien'] = g.integers(0, 1000, n).astype(_row_dtype(op, 'ien'))
    return rows


def _row_dtype(op: dict, name: str) -> str:
    d = op.get('dtypes') or {}
    if name in ('signal', 'error'):
        return d.get('data', 'float64')
    if name in ('irun', 'idet', 'ien'):
        return d.get(name, 'int64')
    return d.get(name, 'float64')


def _target_ratio(name: str, unit) -> Fraction:
    """stored unit of a row -> canonical unit of its family"""
    if unit is None:
        return Fraction(1)
    if name in ('u1', 'u2', 'u3'):
        return MOMENTUM_UNITS[unit]
    if name == 'u4':
        return ENERGY_UNITS[unit]
    if name == 'signal':
        return COUNT_UNITS[unit]
    return ERROR_UNITS[unit]


def pix_spec(op: dict) -> list:
    """the rows the pixel block must hold, in order: name, input unit, stored unit, exact ratio input->stored"""
    names = op.get('rows') or list(ROW_NAMES)
    units = op.get('row_units') or [ROW_TARGET_UNITS[r] for r in names]
    return [{'name': r, 'unit_in': row_unit_in(op, r), 'target': t, 'dtype': _row_dtype(op, r),
             'ratio': row_ratio(op, r) / _target_ratio(r, t)} for r, t in zip(names, units)]


def row_unit_in(op: dict, name: str):
    u = op['units']
    if name in ('u1', 'u2', 'u3', 'u4'):
        return u[name]
    if name == 'signal':
        return u['signal']
    if name == 'error':
        return u['signal'] + '**2' if u['signal'] == 'count' else '(' + u['signal'] + ')**2'
    return None


def row_ratio(op: dict, name: str) -> Fraction:
    u = op['units']
    if name in ('u1', 'u2', 'u3'):
        return MOMENTUM_UNITS[u[name]]
    if name == 'u4':
        return ENERGY_UNITS[u['u4']]
    if name == 'signal':
        return COUNT_UNITS[u['signal']]
    if name == 'error':
        return COUNT_UNITS[u['signal']] ** 2
    return Fraction(1)





# ------------------------------------------------------------------------------------------
# running the real builder
# ------------------------------------------------------------------------------------------
def _var(vals, unit, dims=None):
    import scipp as sc

    return sc.array(dims=dims or ['x'], values=np.asarray(vals, dtype='float64'), unit=unit)


def make_experiment(run: dict):
    import scipp as sc
    from scippneutron.io.sqw import EnergyMode, SqwIXExperiment

    edt, ndt = run.get('efix_dtype', 'float64'), run.get('en_dtype', 'float64')
    if run['efix_scalar']:
        efix = sc.scalar(typed_array(run['efix'], edt)[0], unit=run['efix_unit'], dtype=edt)
    else:
        efix = sc.array(dims=['detector'], values=typed_array(run['efix'], edt), unit=run['efix_unit'])
    if run['en_2d'] is None:
        en = sc.array(dims=['energy_transfer'], values=typed_array(run['en'], ndt), unit=run['en_unit'])
    else:
        ndet, nen, transposed = run['en_2d']
        a = typed_array(run['en'], ndt).reshape(ndet, nen)
        if transposed:
            en = sc.array(dims=['energy_transfer', 'detector'], values=np.ascontiguousarray(a.T), unit=run['en_unit'])
        else:
            en = sc.array(dims=['detector', 'energy_transfer'], values=a, unit=run['en_unit'])
    ang = {a: sc.scalar(typed_array([run[a][0]], _adt(run, a))[0], unit=run[a][1], dtype=_adt(run, a))
           for a in ('psi', 'omega', 'dpsi', 'gl', 'gs')}
    return SqwIXExperiment(
        run_id=run['run_id'], efix=efix, emode=EnergyMode(run['emode']), en=en,
        u=sc.vector(run['u']), v=sc.vector(run['v']), filename=run['filename'], filepath=run['filepath'], **ang)


def _adt(run: dict, a: str) -> str:
    return run[a][2] if len(run[a]) > 2 else 'float64'


def make_pixels(op: dict):
    import scipp as sc

    rows = pixel_rows(op)
    data = sc.array(dims=['obs'], values=rows['signal'], variances=rows['error'], unit=op['units']['signal'])
    coords = {}
    for name in ('u1', 'u2', 'u3', 'u4'):
        coords[name] = sc.array(dims=['obs'], values=rows[name], unit=op['units'][name])
    for name in ('irun', 'idet', 'ien'):
        coords[name] = sc.array(dims=['obs'], values=rows[name], unit=None)
    return sc.DataArray(data, coords=coords)


def make_dnd(op: dict):
    import scipp as sc
    from scippneutron.io.sqw import SqwDndMetadata, SqwLineAxes, SqwLineProj

    a, p = op['axes'], op['proj']

    def dts(d, key):
        return d.get(key + '_dtypes') or ['float64'] * 4

    def scalars(d, key):
        return [sc.scalar(typed_array([v], dt)[0], unit=u, dtype=dt)
                for v, u, dt in zip(d[key], d[key + '_units'], dts(d, key))]

    axes = SqwLineAxes(
        title=a['title'], label=list(a['label']),
        img_scales=scalars(a, 'img_scales'),
        img_range=[sc.array(dims=['range'], values=typed_array(v, dt), unit=u)
                   for v, u, dt in zip(a['img_range'], a['img_range_units'], dts(a, 'img_range'))],
        n_bins_all_dims=sc.array(dims=['axis'], values=a['n_bins'], unit=None),
        single_bin_defines_iax=sc.array(dims=['axis'], values=a['single_bin']),
        dax=sc.array(dims=['axis'], values=a['dax'], unit=None),
        offset=scalars(a, 'offset'),
        changes_aspect_ratio=a['changes_aspect_ratio'])
    proj = SqwLineProj(
        lattice_spacing=sc.vector(p['alatt'], unit=p['alatt_unit']),
        lattice_angle=sc.vector(p['angdeg'], unit=p['angdeg_unit']),
        offset=scalars(p, 'offset'),
        title=p['title'], label=list(p['label']),
        u=sc.vector(p['u'], unit=p['u_unit']), v=sc.vector(p['v'], unit=p['v_unit']),
        w=None if p['w'] is None else sc.vector(p['w'], unit=p['w_unit']),
        non_orthogonal=p['non_orthogonal'], type='aaa')
    return SqwDndMetadata(axes=axes, proj=proj)


def make_instrument(op: dict):
    import scipp as sc
    from scippneutron.io.sqw import SqwIXNullInstrument, SqwIXSource

    return SqwIXNullInstrument(name=op['name'], source=SqwIXSource(
        name=op['source_name'], target_name=op['target_name'], frequency=sc.scalar(op['frequency'], unit='Hz')))


def make_sample(op: dict):
    import scipp as sc
    from scippneutron.io.sqw import SqwIXSample

    return SqwIXSample(name=op['name'], lattice_spacing=sc.vector(op['alatt'], unit=op['alatt_unit']),
                       lattice_angle=sc.vector(op['angdeg'], unit=op['angdeg_unit']))


def case_path(case: dict, tmpdir: str) -> str:
    d = os.path.join(tmpdir, *case['dirs'])
    os.makedirs(d, exist_ok=True)
    return os.path.join(d, case['fname'])


FILE_HISTORIES = ('larger', 'smaller', 'same', 'previous-program', 'replaced')
STREAM_HISTORIES = ('smaller@0', 'same@0', 'larger@0', 'data@end')


def gen_history(rng, target: str):
    """what the output target already holds before `create` runs (None: a fresh path / empty BytesIO)"""
    if rng.random() >= (0.5 if target == 'file' else 0.3):
        return None
    kind = rng.choice(FILE_HISTORIES if target == 'file' else STREAM_HISTORIES)
    return {'kind': kind, 'extra': rng.choice([1, 2, 17, 1000, 17280]), 'seed': rng.getrandbits(32)}


def _run_builder(case: dict, target):
    from scippneutron.io.sqw import Sqw

    b = Sqw.build(target, title=case['title'], byteorder=case['order'])
    for op in case['ops']:
        k = op['k']
        if k == 'P':
            kw = {}
            if op.get('rows'):
                kw = {'rows': tuple(op['rows']), 'row_units': tuple(op['row_units'])}
            b = b.add_pixel_data(make_pixels(op), experiments=[make_experiment(r) for r in op['runs']],
                                 n_dims=op['ndims'], **kw)
        elif k == 'I':
            b = b.add_default_instrument(make_instrument(op))
        elif k == 'S':
            b = b.add_default_sample(make_sample(op))
        elif k == 'N':
            b = b.add_empty_dnd_data(make_dnd(op))
        elif k == 'D':
            b = b.add_empty_detector_params()
    if case['chunk'] is None:
        b.create()
    else:
        b.create(chunk_size=case['chunk'])


def _garbage(seed: int, n: int) -> bytes:
    return np.random.default_rng(seed).integers(0, 256, max(n, 0), dtype=np.uint8).tobytes()


def _rebase_positions(region: bytes, o: str, base: int):
    """the bytes written into a stream at offset `base`, with the (stream-absolute) block positions of the table
    turned into positions relative to the start of the written region -> bytes, or None if the table is unreadable"""
    info, probs = lenient_layout(region, o)
    if probs or 'descs' not in info:
        return None
    out = bytearray(region)
    c = Cursor(region, o, info['header_len'] + 8)
    for d in info['descs']:
        c.char_array(), c.char_array(), c.char_array()
        if d['pos'] < base:
            return None
        out[c.p:c.p + 8] = (d['pos'] - base).to_bytes(8, o)
        c.p += 16
    return bytes(out)


def build_real(case: dict, tmpdir: str | None):
    """Run the real builder on its target, after giving the target the HISTORY of the case (an existing larger /
    smaller / equally long file, a file written by another builder program, a replaced directory entry; a BytesIO
    that already holds data, positioned at 0 or at its end).
    -> (bytes, target). For a path: everything the path holds afterwards. For a stream: the bytes the builder
    wrote (from the position the stream had to the position it has afterwards) with block positions made relative
    to that start; writes outside that region are recorded in case['_history_problems']."""
    hist = case.get('history')
    if hist and hist['kind'] not in (FILE_HISTORIES if case['target'] == 'file' else STREAM_HISTORIES):
        hist = None  # the target kind was changed after the history was drawn
    case['_history_problems'] = []
    case['_base'] = 0
    if case['target'] == 'file':
        target = case_path(case, tmpdir)
        if os.path.exists(target):
            os.remove(target)
        if hist:
            kind = hist['kind']
            if kind == 'previous-program':
                # the same path written before by another program (more pixels, every call)
                import random as _r

                other = small_case(_r.Random(hist['seed']), -2, ['P', 'N', 'I', 'S', 'D'], npix=40 + hist['extra'] % 500)
                other.update(target='file', dirs=case['dirs'], fname=case['fname'], history=None)
                _run_builder(other, target)
            else:
                _run_builder(case, target)
                n = os.path.getsize(target)
                size = {'larger': n + hist['extra'], 'smaller': max(0, n - hist['extra']), 'same': n,
                        'replaced': n + hist['extra']}[kind]
                if kind == 'replaced':
                    tmp = target + '.old'
                    with open(tmp, 'wb') as f:
                        f.write(_garbage(hist['seed'], size))
                    os.replace(tmp, target)
                else:
                    with open(target, 'wb') as f:
                        f.write(_garbage(hist['seed'], size))
        _run_builder(case, target)
        with open(target, 'rb') as f:
            return f.read(), target
    if not hist:
        target = BytesIO()
        _run_builder(case, target)
        return target.getvalue(), target
    dry = BytesIO()
    _run_builder(case, dry)
    n = len(dry.getvalue())
    kind = hist['kind']
    size = {'smaller@0': max(0, n - hist['extra']), 'same@0': n, 'larger@0': n + hist['extra'], 'data@end': hist['extra']}[kind]
    before = _garbage(hist['seed'], size)
    target = BytesIO(before)
    base = size if kind == 'data@end' else 0
    target.seek(base)
    _run_builder(case, target)
    end = target.tell()
    whole = target.getvalue()
    case['_base'] = base
    if whole[:base] != before[:base]:
        case['_history_problems'].append(('C12:stream-bytes-before-start-overwritten',
                                          f'bytes before the start position {base} of the stream were changed'))
    if whole[end:] != before[end:]:
        case['_history_problems'].append(('C12:stream-bytes-after-end-overwritten',
                                          f'bytes after the end {end} of the written region were changed'))
    region = whole[base:end]
    if base:
        reb = _rebase_positions(region, expected_order(case), base)
        if reb is None:
            case['_history_problems'].append(('C12:stream-positions', 'block positions written into a stream positioned '
                                              f'at {base} are not stream-absolute positions inside the written region'))
        else:
            region = reb
    return region, target


def effective_ops(case: dict) -> dict:
    """kind -> the op that is in force when `create` runs (the last call of each kind)"""
    out = {}
    for op in case['ops']:
        out[op['k']] = op
    return out


def path_strings(case: dict, tmpdir: str | None):
    """(full_filename, filepath, filename) the builder derives from its target"""
    if case['target'] == 'file':
        p = case_path(case, tmpdir)
        return p, os.path.dirname(p), os.path.basename(p)
    return 'in_memory', '', ''


def expected_order(case: dict) -> str:
    return sys.byteorder if case['order'] == 'native' else case['order']


# ------------------------------------------------------------------------------------------
# conversions done by scipp (inputs of the Lean encoder: numbers in the units the format stores)
# ------------------------------------------------------------------------------------------
def conv(vals, unit_in, unit_out, dtype: str = 'float64'):
    """what the writer's `x.to(unit=unit_out, dtype="float64")` gives for values held in `dtype`"""
    import scipp as sc

    v = sc.array(dims=['x'], values=typed_array(vals, dtype), unit=unit_in)
    return [float(x) for x in v.to(unit=unit_out, dtype='float64').values]


_PIX_CONV: dict = {}


def pix_conversion(which: str) -> str:
    """the conversion the writer in the tree under test applies to pixel rows ('pixels') and to their
    min/max ('range'), as read from the source by the translator"""
    if not _PIX_CONV:
        from .translate import sqw as tr

        _PIX_CONV.update(tr.pixel_conversions(os.environ.get('SCN_REPO', '/repo')))
    return _PIX_CONV.get(which, 'to_unit')


def _row_conv(var, target, which: str):
    import scipp as sc

    if pix_conversion(which) == 'to_float64':
        return var.to(unit=target, dtype='float64')
    return sc.to_unit(var, target)


def _bits(vals) -> str:
    return ','.join('%016x' % f64bits(v) for v in vals)


def _s(s: str) -> str:
    return hx(s.encode('utf-8'))


def model_op_token(op: dict) -> str:
    import scipp as sc

    k = op['k']
    if k == 'D':
        return 'D'
    if k == 'I':
        return f"I:{_s(op['name'])}:{_s(op['source_name'])}:{_s(op['target_name'])}:{f64bits(op['frequency']):016x}"
    if k == 'S':
        return (f"S:{_s(op['name'])}:{_bits(conv(op['alatt'], op['alatt_unit'], 'angstrom'))}:"
                f"{_bits(conv(op['angdeg'], op['angdeg_unit'], 'deg'))}")
    if k == 'N':
        a, p = op['axes'], op['proj']
        tgt = ['1/angstrom'] * 3 + ['meV']

        def multi(d, key):
            dts = d.get(key + '_dtypes') or ['float64'] * 4
            return [conv([v], u, t, dt)[0] for v, u, t, dt in zip(d[key], d[key + '_units'], tgt, dts)]

        rng_flat = []
        for (lo, hi), u, t, dt in zip(a['img_range'], a['img_range_units'], tgt,
                                      a.get('img_range_dtypes') or ['float64'] * 4):
            rng_flat += conv([lo, hi], u, t, dt)
        axes = ';'.join([
            _s(a['title']), ','.join(_s(x) for x in a['label']), _bits(multi(a, 'img_scales')),
            _bits(rng_flat), ','.join(str(n) for n in a['n_bins']), ''.join('1' if b else '0' for b in a['single_bin']),
            ','.join(str(d) for d in a['dax']), _bits(multi(a, 'offset')),
            '1' if a['changes_aspect_ratio'] else '0'])
        proj = ';'.join([
            _bits(conv(p['alatt'], p['alatt_unit'], 'angstrom')), _bits(conv(p['angdeg'], p['angdeg_unit'], 'deg')),
            _bits(multi(p, 'offset')), _s(p['title']), ','.join(_s(x) for x in p['label']),
            _bits(conv(p['u'], p['u_unit'], '1/angstrom')), _bits(conv(p['v'], p['v_unit'], '1/angstrom')),
            '' if p['w'] is None else _bits(conv(p['w'], p['w_unit'], '1/angstrom')),
            '1' if p['non_orthogonal'] else '0'])
        return f'N:{axes}:{proj}'
    if k == 'P':
        rows = pixel_rows(op)
        toks = []
        for sp in pix_spec(op):
            # as the writer does it: `sc.to_unit(row, unit)` on the row in ITS dtype, then the float32 store
            v = rows[sp['name']]
            uin = sp['unit_in']
            empty = sc.array(dims=['x'], values=v[:0], unit=uin)
            # what min()/max() of an EMPTY row turn into (identity elements, converted)
            lo = float(_row_conv(empty.min(), sp['target'], 'range').value)
            hi = float(_row_conv(empty.max(), sp['target'], 'range').value)
            arr = _row_conv(sc.array(dims=['x'], values=v, unit=uin), sp['target'], 'pixels').values
            toks.append(','.join(['%016x' % f64bits(lo), '%016x' % f64bits(hi)] + ['%016x' % f64bits(float(x)) for x in arr]))
        exps = []
        for r in op['runs']:
            efix = conv(r['efix'], r['efix_unit'], 'meV', r.get('efix_dtype', 'float64'))
            en = conv(r['en'], r['en_unit'], 'meV', r.get('en_dtype', 'float64'))
            if r['en_2d'] is None:
                en_rows, en_cols = 1, len(en)
            else:
                en_rows, en_cols = r['en_2d'][0], r['en_2d'][1]
            ang = {a: conv([r[a][0]], r[a][1], 'rad', _adt(r, a))[0] for a in ('psi', 'omega', 'dpsi', 'gl', 'gs')}
            exps.append(';'.join([
                _s(r['filename']), _s(r['filepath']), str(r['run_id']), _bits(efix), str(r['emode']),
                str(en_rows), str(en_cols), _bits(en), '%016x' % f64bits(ang['psi']), _bits(r['u']), _bits(r['v']),
                '%016x' % f64bits(ang['omega']), '%016x' % f64bits(ang['dpsi']), '%016x' % f64bits(ang['gl']),
                '%016x' % f64bits(ang['gs'])]))
        return f"P:{op['ndims']}:{'/'.join(toks)}:{'/'.join(exps)}"
    raise ValueError(k)


def model_create_line(case: dict, tmpdir: str | None, stamp_main: str, stamp_dnd: str) -> str:
    full, fp, fn = path_strings(case, tmpdir)
    chunk = 8192 if case['chunk'] is None else case['chunk']
    head = ['c12.create', expected_order(case), _s(full), _s(fp), _s(fn), _s(case['title']), _s(stamp_main),
            _s(stamp_dnd), str(chunk)]
    return ' '.join(head + [model_op_token(op) for op in case['ops']])


def stamps_of(decoded: dict) -> tuple[str, str]:
    """time stamp strings of the main header and of the histogram metadata as found in the file"""
    main = dnd = ''
    _, b = block_by_name(decoded, '', 'main_header')
    if b is not None and b[0] == 'R' and b[1][0] == 'S' and b[1][2] == 1:
        x = struct_fields(b[1]).get('creation_date')
        main = (as_str(x) or '') if x is not None else ''
    _, b = block_by_name(decoded, 'data', 'metadata')
    if b is not None and b[0] == 'R' and b[1][0] == 'S' and b[1][2] == 1:
        x = struct_fields(b[1]).get('creation_date_str')
        dnd = (as_str(x) or '') if x is not None else ''
    return main, dnd


# ------------------------------------------------------------------------------------------
# exact rounding helpers for the oracles
# ------------------------------------------------------------------------------------------
def round_f32_exact(q: Fraction) -> int:
    """bit pattern of the float32 nearest to the rational q (ties to even); q within float32 range"""
    if q == 0:
        return 0
    c0 = np.float32(float(q))
    cands = {f32bits(c0), f32bits(np.nextafter(c0, np.float32(-np.inf))), f32bits(np.nextafter(c0, np.float32(np.inf)))}
    best = None
    for b in cands:
        v = bits_f32(b)
        if math.isinf(v) or math.isnan(v):
            continue
        d = abs(Fraction(v) - q)
        key = (d, b & 1)
        if best is None or key < best[0]:
            best = (key, b)
    return best[1]


def f32_close_enough(stored_bits: int, q: Fraction, tol=Fraction(1, 2**50)) -> str:
    """'exact' if stored is the correctly rounded float32 of q; 'midpoint' if it is the other neighbour and
    q is within `tol` (relative) of the rounding boundary between them; else 'bad'"""
    want = round_f32_exact(q)
    if stored_bits == want or (bits_f32(stored_bits) == 0 and bits_f32(want) == 0):
        return 'exact'
    s, w = bits_f32(stored_bits), bits_f32(want)
    if math.isinf(s) or math.isnan(s):
        return 'bad'
    lo, hi = (s, w) if s < w else (w, s)
    if np.nextafter(np.float32(lo), np.float32(np.inf)) != np.float32(hi):
        return 'bad'
    mid = (Fraction(lo) + Fraction(hi)) / 2
    if abs(q - mid) <= tol * abs(mid):
        return 'midpoint'
    return 'bad'


def f64_close(stored: float, q: Fraction, tol=Fraction(1, 2**50)) -> bool:
    if math.isnan(stored) or math.isinf(stored):
        return False
    if q == 0:
        return stored == 0
    return abs(Fraction(stored) - q) <= tol * abs(q)


# ------------------------------------------------------------------------------------------
# direct oracles (property statements evaluated on the bytes the real builder produced)
# ------------------------------------------------------------------------------------------
EXPECTED_BLOCKS = {
    'P': [('experiment_info', 'expdata'), ('pix', 'metadata'), ('pix', 'data_wrap')],
    'I': [('experiment_info', 'instruments')],
    'S': [('experiment_info', 'samples')],
    'N': [('data', 'metadata'), ('data', 'nd_data')],
    'D': [('', 'detpar')],
}
BLOCK_TYPES = {('pix', 'data_wrap'): b'pix_data_block', ('data', 'nd_data'): b'dnd_data_block'}

_reference_order_cache: dict = {}


def reference_block_order(kinds: frozenset) -> list:
    """block names in the order the real builder lists them for a program that makes the calls of
    `kinds` once each in a fixed (alphabetical) order with minimal arguments"""
    if kinds not in _reference_order_cache:
        import random as _r

        rng = _r.Random(12345)
        ops = []
        for k in sorted(kinds):
            if k == 'P':
                ops.append(gen_pix_op(rng, npix=1, nruns=1, unit_scale=False))
            else:
                ops.append(gen_op(rng, k))
        case = {'id': -1, 'order': 'little', 'target': 'bytesio', 'dirs': [], 'fname': 'f.sqw', 'title': '',
                'chunk': None, 'ops': ops}
        try:
            data, _ = build_real(case, None)
            info, probs = lenient_layout(data, 'little')
        except Exception:  # noqa: BLE001
            info, probs = {}, [('x', 'x')]
        if probs or 'descs' not in info:
            _reference_order_cache[kinds] = None
        else:
            _reference_order_cache[kinds] = [(d['n0'].decode('utf-8', 'replace'), d['n1'].decode('utf-8', 'replace'))
                                             for d in info['descs']]
    return _reference_order_cache[kinds]


def all_rows_integer(case: dict) -> bool:
    """no float64 among the selected rows: numpy does not promote their min/max to float64"""
    p = effective_ops(case).get('P')
    return p is not None and np.result_type(*[np.dtype(sp['dtype']) for sp in pix_spec(p)]) != np.dtype('float64')


def lenient_layout(data: bytes, o: str):
    """header/table walk that does not stop at the first inconsistency -> (info, problems)"""
    c = Cursor(data, o)
    info = {}
    try:
        info['prog'] = c.char_array()
        info['version'] = c.uint(8)
        info['type'] = c.uint(4)
        info['ndims'] = c.uint(4)
        info['header_len'] = c.p
        info['bat_size'] = c.uint(4)
        after = c.p
        n = c.uint(4)
        if n > 1000:
            return info, [('C12:bat-size', f'table announces {n} blocks')]
        descs = []
        for _ in range(n):
            descs.append({'ty': c.char_array(), 'n0': c.char_array(), 'n1': c.char_array(), 'pos': c.uint(8),
                          'size': c.uint(4), 'locked': c.uint(4)})
        info['descs'] = descs
        info['bat_body'] = c.p - after
        info['data_start'] = c.p
    except _Short:
        return info, [('C12:truncated', 'file ends inside the header or the block allocation table')]
    return info, []


def structure_violations(case: dict, data: bytes) -> list:
    """C12 on the actual bytes -> [(key, what)]"""
    out = []
    o = expected_order(case)
    eff = effective_ops(case)
    ndims = eff['P']['ndims'] if 'P' in eff else 0
    fmt = '<d' if o == 'little' else '>d'
    exp_hdr = (6).to_bytes(4, o) + b'horace' + struct.pack(fmt, 4.0) + (1).to_bytes(4, o) + ndims.to_bytes(4, o)
    if data[:len(exp_hdr)] != exp_hdr:
        out.append(('C12:header', f'file does not begin with the horace 4.0 header ({o}-endian, n_dims={ndims})'))
        return out
    if deduce_order(data) != o:
        out.append(('C12:byteorder', f'length field of the program name reads smaller in the other byte order than {o}'))
    info, probs = lenient_layout(data, o)
    if probs:
        return out + probs
    if info['bat_size'] != info['bat_body']:
        out.append(('C12:bat-size', f"table size field {info['bat_size']} but its body has {info['bat_body']} bytes"))
    descs = info['descs']
    names = [(d['n0'].decode('utf-8', 'replace'), d['n1'].decode('utf-8', 'replace')) for d in descs]
    expected = [('', 'main_header')] + [n for k in eff for n in EXPECTED_BLOCKS[k]]
    if len(set(names)) != len(names):
        out.append(('C12:bat-duplicate', f'a block is listed more than once: {names}'))
    if set(names) != set(expected):
        out.append(('C12:bat-blocks', f'blocks listed {sorted(names)} but the calls made require {sorted(expected)}'))
    else:
        ref = reference_block_order(frozenset(eff))
        if ref is not None and names != ref:
            out.append(('C12:bat-order-depends-on-call-order',
                        f'blocks listed as {names}; the same set of calls in another order gives {ref}'))
    for d, n in zip(descs, names):
        want = BLOCK_TYPES.get(n, b'data_block')
        if d['ty'] != want:
            out.append(('C12:block-type', f'block {n} declared as {d["ty"]!r}, expected {want!r}'))
    p = info['data_start']
    for i, (d, n) in enumerate(zip(descs, names)):
        if d['pos'] != p:
            out.append(('C12:extent-gap', f'block {i} {n} starts at {d["pos"]}, previous extent ended at {p}'))
            p = d['pos']
        end = p + d['size']
        if n == ('pix', 'data_wrap') and p + 12 <= len(data):
            nr_, np_ = int.from_bytes(data[p:p + 4], o), int.from_bytes(data[p + 4:p + 12], o)
            if d['size'] != 12 + 4 * nr_ * np_:
                out.append(('C12:pix-size-declared',
                            f'pixel block of {nr_} rows x {np_} pixels is declared with {d["size"]} bytes, '
                            f'its content needs {12 + 4 * nr_ * np_}'))
        if end > len(data):
            if n == ('pix', 'data_wrap') and not any(k == 'C12:pix-size-declared' for k, _ in out):
                out.append(('C12:pix-chunk-loop-truncates',
                            f'pixel block declares {d["size"]} bytes at {p} but the file ends at {len(data)}'))
            else:
                out.append(('C12:extent-end', f'block {i} {n} reaches {end}, file has {len(data)} bytes'))
        else:
            try:
                decode_block(data, o, i, d['ty'], p, d['size'], keep_pix=False)
            except DecodeError as e:
                if n == ('pix', 'metadata') and all_rows_integer(case):
                    out.append(('C12:data-range-dtype',
                                'no float64 row selected: data_range is written with the narrower / integer dtype of the rows under '
                                f'the f64 tag, the pixel metadata block does not decode within its extent ({e})'))
                else:
                    out.append((f'C12:block-decode:{n[0]}/{n[1]}', f'block {i} {n} does not decode within its extent: {e}'))
        p = end
    if p < len(data):
        if case.get('history') and case['target'] == 'file':
            out.append(('C12:stale-bytes-after-rewrite',
                        f"the path already held a file ({case['history']['kind']}): the last extent ends at {p} but the "
                        f'path now holds {len(data)} bytes, {len(data) - p} bytes of the earlier content follow the new file'))
        else:
            out.append(('C12:extent-end', f'last extent ends at {p} but the file has {len(data)} bytes'))
    return out + list(case.get('_history_problems') or [])


def reader_structure_violations(case: dict, data: bytes, target) -> list:
    """Sqw.open(...).byteorder / file_header / data_block_names() against the decoder"""
    import warnings

    from scippneutron.io.sqw import Sqw

    out = []
    o = expected_order(case)
    if hasattr(target, 'seek'):
        target.seek(case.get('_base', 0))
    try:
        with warnings.catch_warnings(record=True) as wlist:
            warnings.simplefilter('always')
            with Sqw.open(target) as sqw:
                bo = sqw.byteorder.value
                fh = sqw.file_header
                names = list(sqw.data_block_names())
    except Exception as e:  # noqa: BLE001
        return [('C12:reader-open', f'Sqw.open failed on a file the builder wrote: {type(e).__name__}')]
    if bo != o:
        out.append(('C12:byteorder', f'file written {o}-endian is re-opened as {bo}-endian'))
        return out
    if wlist:
        out.append(('C12:reader-header', f'Sqw.open warns about the header: {str(wlist[0].message)[:80]}'))
    eff = effective_ops(case)
    ndims = eff['P']['ndims'] if 'P' in eff else 0
    if (fh.prog_name, fh.prog_version, fh.sqw_type.value, fh.n_dims) != ('horace', 4.0, 1, ndims):
        out.append(('C12:reader-header', f'file_header read back as {fh}'))
    info, probs = lenient_layout(data, o)
    if not probs:
        dn = [(d['n0'].decode('utf-8', 'replace'), d['n1'].decode('utf-8', 'replace')) for d in info['descs']]
        if [tuple(n) for n in names] != dn:
            out.append(('C12:reader-block-names', f'data_block_names() {names} differ from the table {dn}'))
    return out


# ---- C13 ------------------------------------------------------------------------------------
def _chk_str(out, key, what, obj, expect: str):
    got = None if obj is None else as_str(obj)
    if got != expect:
        out.append((key, f'{what}: stored {got!r:.80}, supplied {expect!r:.80}'))


def _chk_f64_exact(out, key, what, obj, expect: list, shape=None):
    got = None if obj is None else as_f64s(obj)
    if got is None or [f64bits(g) for g in got] != [f64bits(e) for e in expect]:
        out.append((key, f'{what}: stored {got!r:.120}, expected {expect!r:.120}'))
    elif shape is not None and list(obj[1]) != list(shape):
        out.append((key, f'{what}: stored with shape {obj[1]}, expected {shape}'))


def _chk_f64_conv(out, key, what, obj, supplied: list, ratios: list, shape=None):
    """stored values must be supplied*ratio (exact rational) to within 2^-50 relative; bit-exact for ratio 1"""
    got = None if obj is None else as_f64s(obj)
    if got is None or len(got) != len(supplied):
        out.append((key, f'{what}: stored {got!r:.120}, supplied {supplied!r:.120}'))
        return
    for g, s, r in zip(got, supplied, ratios):
        ok = (f64bits(g) == f64bits(s)) if r == 1 else f64_close(g, Fraction(s) * r)
        if not ok:
            out.append((key, f'{what}: stored {g!r}, supplied {s!r} x {float(r)!r}'))
            return
    if shape is not None and list(obj[1]) != list(shape):
        out.append((key, f'{what}: stored with shape {obj[1]}, expected {shape}'))


def _chk_bool(out, key, what, obj, expect: list):
    got = None if obj is None or obj[0] != 'L' else list(obj[2])
    if got != list(expect):
        out.append((key, f'{what}: stored {got}, supplied {expect}'))


def _single_struct(block):
    if block is None or block[0] != 'R':
        return None
    s = block[1]
    if s[0] != 'S' or s[2] != 1 or s[1] != [1]:
        return None
    return struct_fields(s)


def _container(out, key, block, baseclass: str, global_name: str, nobj: int, nidx: int):
    """unique_references_container -> list of the stored object structs (field dicts) or None"""
    f = _single_struct(block)
    if f is None:
        out.append((key, 'container block is not a single struct'))
        return None
    _chk_str(out, key, 'serial_name', f.get('serial_name'), 'unique_references_container')
    _chk_str(out, key, 'stored_baseclass', f.get('stored_baseclass'), baseclass)
    _chk_str(out, key, 'global_name', f.get('global_name'), global_name)
    inner = f.get('unique_objects')
    if inner is None or inner[0] != 'S' or inner[2] != 1:
        out.append((key, 'unique_objects is not a single struct'))
        return None
    g = struct_fields(inner)
    _chk_str(out, key, 'baseclass', g.get('baseclass'), baseclass)
    objs = g.get('unique_objects')
    idx = g.get('idx')
    if objs is None or objs[0] != 'K' or idx is None or idx[0] != 'F':
        out.append((key, 'unique_objects / idx malformed'))
        return None
    ivals = as_f64s(idx)
    if len(objs[2]) != nobj or len(ivals) != nidx or any(v != 1.0 for v in ivals):
        out.append(('C13:shared-object',
                    f'{baseclass}: {len(objs[2])} stored objects, idx={ivals[:8]}… (len {len(ivals)}); expected '
                    f'{nobj} object referenced by {nidx} indices all equal to 1'))
        return None
    res = []
    for x in objs[2]:
        if x[0] != 'S' or x[2] != 1:
            out.append((key, 'stored object is not a single struct'))
            return None
        res.append(struct_fields(x))
    return res


def content_violations(case: dict, data: bytes, tmpdir: str | None) -> list:
    """C13 on the decoded bytes -> [(key, what)]; needs a structurally valid file"""
    try:
        return _content_violations(case, data, tmpdir)
    except (KeyError, IndexError, TypeError, ValueError, AttributeError) as e:
        return [('C13:content-malformed', f'decoded content has an unexpected structure ({type(e).__name__}: {str(e)[:60]})')]


def _content_violations(case: dict, data: bytes, tmpdir: str | None) -> list:
    out = []
    try:
        f = decode_file(data)
    except DecodeError as e:
        info, _ = lenient_layout(data, expected_order(case))
        descs = info.get('descs') or []
        if e.kind == 'extent-short' and descs and descs[-1]['n1'] == b'data_wrap':
            return [('C13:pix-chunk-loop-truncates', 'pixel block shorter than declared: pixels are missing from the file')]
        if e.kind == 'block-decode' and all_rows_integer(case) and e.index is not None and e.index < len(descs) \
                and (descs[e.index]['n0'], descs[e.index]['n1']) == (b'pix', b'metadata'):
            return [('C13:data-range-dtype', 'no float64 row selected: data_range is written with the dtype of '
                                           'the rows under the f64 tag, the pixel metadata cannot be decoded')]
        return [('C13:undecodable', f'file does not decode: {e}')]
    eff = effective_ops(case)
    full, fpath, fname = path_strings(case, tmpdir)
    blocks = {(d['n0'].decode('utf-8', 'replace'), d['n1'].decode('utf-8', 'replace')): b for d, b in zip(f['descs'], f['blocks'])}
    nfiles = len(eff['P']['runs']) if 'P' in eff else 0

    # main header
    mh = _single_struct(blocks.get(('', 'main_header')))
    if mh is None:
        out.append(('C13:main-header', 'main header missing or not a single struct'))
    else:
        _chk_str(out, 'C13:main-header:serial_name', 'serial_name', mh.get('serial_name'), 'main_header_cl')
        _chk_f64_exact(out, 'C13:main-header:version', 'version', mh.get('version'), [2.0], [1])
        _chk_str(out, 'C13:main-header:title', 'title', mh.get('title'), case['title'])
        _chk_str(out, 'C13:main-header:full_filename', 'full_filename', mh.get('full_filename'), full)
        _chk_f64_exact(out, 'C13:main-header:nfiles', 'nfiles', mh.get('nfiles'), [float(nfiles)], [1])
        _chk_bool(out, 'C13:main-header:creation_date_defined_privately', 'flag', mh.get('creation_date_defined_privately'), [False])
        st = as_str(mh.get('creation_date')) if mh.get('creation_date') is not None else None
        if st is None or len(st) != 25 or st[10] != 'T' or not st.endswith('+00:00'):
            out.append(('C13:main-header:creation_date', f'creation date {st!r} is not an ISO time stamp in UTC'))

    if 'D' in eff:
        _container(out, 'C13:detpar', blocks.get(('', 'detpar')), 'IX_detector_array', 'GLOBAL_NAME_DETECTORS_CONTAINER', 0, 0)

    if 'P' in eff:
        out += _pixel_violations(eff['P'], blocks, full)
        out += _experiment_violations(eff['P'], blocks)

    if 'I' in eff:
        op = eff['I']
        objs = _container(out, 'C13:instrument', blocks.get(('experiment_info', 'instruments')), 'IX_inst',
                          'GLOBAL_NAME_INSTRUMENTS_CONTAINER', 1, nfiles)
        if objs:
            g = objs[0]
            _chk_str(out, 'C13:instrument:serial_name', 'serial_name', g.get('serial_name'), 'IX_null_inst')
            _chk_f64_exact(out, 'C13:instrument:version', 'version', g.get('version'), [2.0], [1])
            _chk_str(out, 'C13:instrument:name', 'name', g.get('name'), op['name'])
            src = g.get('source')
            if src is None or src[0] != 'S' or src[2] != 1:
                out.append(('C13:instrument:source', 'source is not a single struct'))
            else:
                s = struct_fields(src)
                _chk_str(out, 'C13:instrument:source', 'serial_name', s.get('serial_name'), 'IX_source')
                _chk_f64_exact(out, 'C13:instrument:source', 'version', s.get('version'), [2.0], [1])
                _chk_str(out, 'C13:instrument:source-name', 'source name', s.get('name'), op['source_name'])
                _chk_str(out, 'C13:instrument:target-name', 'target name', s.get('target_name'), op['target_name'])
                _chk_f64_exact(out, 'C13:instrument:frequency', 'frequency', s.get('frequency'), [op['frequency']], [1])

    if 'S' in eff:
        op = eff['S']
        objs = _container(out, 'C13:sample', blocks.get(('experiment_info', 'samples')), 'IX_samp',
                          'GLOBAL_NAME_SAMPLES_CONTAINER', 1, nfiles)
        if objs:
            g = objs[0]
            _chk_str(out, 'C13:sample:serial_name', 'serial_name', g.get('serial_name'), 'IX_sample')
            _chk_f64_exact(out, 'C13:sample:version', 'version', g.get('version'), [3.0], [1])
            _chk_str(out, 'C13:sample:name', 'name', g.get('name'), op['name'])
            _chk_f64_conv(out, 'C13:sample:alatt', 'alatt [angstrom]', g.get('alatt'), op['alatt'],
                          [LENGTH_UNITS[op['alatt_unit']]] * 3, [3])
            _chk_f64_conv(out, 'C13:sample:angdeg', 'angdeg [deg]', g.get('angdeg'), op['angdeg'],
                          [ANGLE_TO_DEG[op['angdeg_unit']]] * 3, [3])

    if 'N' in eff:
        out += _dnd_violations(eff['N'], blocks, fpath, fname)
    return out


_FACTOR_ERR: dict = {}


def scipp_factor_error(unit_in, unit_out, exact: Fraction) -> Fraction:
    """relative error of the factor scipp itself uses for this pair of units (the oracle assumes it is the
    correctly rounded ratio; where scipp's factor is less accurate — J -> eV is off by 3.8e-14 — the tolerance
    is widened by exactly that much, not more)"""
    key = (unit_in, unit_out)
    if key not in _FACTOR_ERR:
        import scipp as sc

        if unit_in is None or unit_out is None or unit_in == unit_out or exact == 0:
            _FACTOR_ERR[key] = Fraction(0)
        else:
            f = Fraction(float(sc.to_unit(sc.scalar(1.0, unit=unit_in), unit_out).value))
            _FACTOR_ERR[key] = abs(f - exact) / exact
    return _FACTOR_ERR[key]


def _pixel_violations(op: dict, blocks: dict, full: str) -> list:
    out = []
    n = op['npix']
    rows = pixel_rows(op)
    spec = pix_spec(op)
    nr = len(spec)
    pb = blocks.get(('pix', 'data_wrap'))
    if pb is None or pb[0] != 'P':
        return [('C13:pixel-count', 'no pixel block')]
    _, nrows, npix, arr = pb
    if nrows != nr or npix != n:
        return [('C13:pixel-count', f'pixel block holds {nrows} rows x {npix} pixels, supplied {nr} x {n}')]
    stored = arr.reshape(n, nr) if n else arr.reshape(0, nr)
    n_mid = 0

    def key_for(sp, default):
        # integer-typed rows converted to another unit: a class of its own (conversion done in integers)
        return 'C13:int-pixel-unit-conversion' if sp['dtype'].startswith('int') and sp['ratio'] != 1 else default

    for i, sp in enumerate(spec):
        name, ratio = sp['name'], sp['ratio']
        col = stored[:, i]
        src = rows[name]
        # fast path: the correctly rounded float32 of an exactly representable product
        if ratio == 1:
            want = src.astype(np.float32).view(np.uint32)
            bad = np.nonzero(want != col)[0]
            # +0/-0 never occur in the generator
        else:
            approx = (src.astype(np.float64) * float(ratio)).astype(np.float32).view(np.uint32)
            bad = np.nonzero(approx != col)[0]
        ferr = scipp_factor_error(sp['unit_in'], sp['target'], ratio)
        ftol = Fraction(1, 2**50) + 2 * ferr
        for k in bad[:50]:
            verdict = f32_close_enough(int(col[k]), Fraction(float(src[k])) * ratio, ftol)
            if verdict == 'bad':
                out.append((key_for(sp, 'C13:pixel-value'),
                            f'pixel {int(k)} row {i} ({name}, {sp["dtype"]}): stored {bits_f32(int(col[k]))!r} {sp["target"]}, '
                            f'supplied {float(src[k])!r} {sp["unit_in"]} (x {float(ratio)!r})'))
                break
            if verdict == 'midpoint':
                n_mid += 1
        if ratio != 1 and len(bad) == 0 and n:
            # spot-check the fast path against exact arithmetic
            for k in (0, n // 2, n - 1):
                if f32_close_enough(int(col[k]), Fraction(float(src[k])) * ratio) == 'bad':
                    out.append((key_for(sp, 'C13:pixel-value'), f'pixel {k} row {i} ({name}): stored {bits_f32(int(col[k]))!r}'))
                    break
    # metadata
    pm = _single_struct(blocks.get(('pix', 'metadata')))
    if pm is None:
        return out + [('C13:pix-metadata', 'pixel metadata missing or not a single struct')]
    _chk_str(out, 'C13:pix-metadata:serial_name', 'serial_name', pm.get('serial_name'), 'pix_metadata')
    _chk_f64_exact(out, 'C13:pix-metadata:version', 'version', pm.get('version'), [1.0], [1])
    _chk_str(out, 'C13:pix-metadata:full_filename', 'full_filename', pm.get('full_filename'), full)
    _chk_f64_exact(out, 'C13:pix-metadata:npix', 'npix', pm.get('npix'), [float(n)], [1])
    dr = pm.get('data_range')
    vals = None if dr is None else as_f64s(dr)
    if vals is None or list(dr[1]) != [2, nr] or len(vals) != 2 * nr:
        out.append(('C13:data-range', f'data_range has shape {None if dr is None else dr[1]}, expected [2, {nr}]'))
    elif n:
        for i, sp in enumerate(spec):
            name, ratio = sp['name'], sp['ratio']
            lo, hi = float(rows[name].min()), float(rows[name].max())
            # a float32 row is converted in single precision: its range carries that precision
            tol = (Fraction(1, 2**22) if sp['dtype'] == 'float32' else Fraction(1, 2**50)) \
                + 2 * scipp_factor_error(sp['unit_in'], sp['target'], ratio)
            for got, src, what in ((vals[2 * i], lo, 'minimum'), (vals[2 * i + 1], hi, 'maximum')):
                ok = (got == src) if ratio == 1 else f64_close(got, Fraction(src) * ratio, tol)
                if not ok:
                    narrow = np.result_type(*[np.dtype(x['dtype']) for x in spec]) != np.dtype('float64')
                    out.append(('C13:data-range-dtype' if narrow else key_for(sp, 'C13:data-range'),
                                f'row {i} ({name}, {sp["dtype"]}): stored {what} {got!r}, pixels have {src!r} x {float(ratio)!r}'))
                    break
    return out


def _experiment_violations(op: dict, blocks: dict) -> list:
    out = []
    runs = op['runs']
    eb = blocks.get(('experiment_info', 'expdata'))
    f = _single_struct(eb)
    if f is None:
        return [('C13:experiment', 'experiment block missing or not a single struct')]
    _chk_str(out, 'C13:experiment:serial_name', 'serial_name', f.get('serial_name'), 'IX_experiment')
    _chk_f64_exact(out, 'C13:experiment:version', 'version', f.get('version'), [3.0], [1])
    arr = f.get('array_dat')
    if arr is None or arr[0] != 'S' or arr[2] != len(runs) or list(arr[1]) != [len(runs)]:
        return out + [('C13:experiment-count', f'{None if arr is None else arr[2]} experiment records for {len(runs)} runs')]
    for k, r in enumerate(runs):
        g = struct_fields(arr, k)
        pre = f'run {k}'
        _chk_str(out, 'C13:experiment:filename', pre + ' filename', g.get('filename'), r['filename'])
        _chk_str(out, 'C13:experiment:filepath', pre + ' filepath', g.get('filepath'), r['filepath'])
        _chk_f64_exact(out, 'C13:experiment:run_id', pre + ' run_id (1-based)', g.get('run_id'), [float(r['run_id'] + 1)], [1])
        _chk_f64_conv(out, 'C13:experiment:efix', pre + ' efix [meV]', g.get('efix'), r['efix'],
                      [ENERGY_UNITS[r['efix_unit']]] * len(r['efix']), [len(r['efix'])])
        _chk_f64_exact(out, 'C13:experiment:emode', pre + ' emode', g.get('emode'), [float(r['emode'])], [1])
        if r['en_2d'] is None:
            shape = [len(r['en']), 1]
        else:
            shape = [r['en_2d'][1], r['en_2d'][0]]
        _chk_f64_conv(out, 'C13:experiment:en', pre + ' en [meV]', g.get('en'), r['en'],
                      [ENERGY_UNITS[r['en_unit']]] * len(r['en']), shape)
        for a in ('psi', 'omega', 'dpsi', 'gl', 'gs'):
            _chk_f64_conv(out, f'C13:experiment:{a}', f'{pre} {a} [rad]', g.get(a), [r[a][0]], [ANGLE_TO_RAD[r[a][1]]], [1])
        _chk_f64_exact(out, 'C13:experiment:u', pre + ' u', g.get('u'), r['u'], [3])
        _chk_f64_exact(out, 'C13:experiment:v', pre + ' v', g.get('v'), r['v'], [3])
        _chk_bool(out, 'C13:experiment:angular_is_degree', pre + ' angular_is_degree', g.get('angular_is_degree'), [False])
        if out:
            break
    return out


def _dnd_violations(op: dict, blocks: dict, fpath: str, fname: str) -> list:
    out = []
    a, p = op['axes'], op['proj']
    tgt_m = [None, None, None]
    f = _single_struct(blocks.get(('data', 'metadata')))
    if f is None:
        return [('C13:dnd-metadata', 'histogram metadata missing or not a single struct')]
    _chk_str(out, 'C13:dnd-metadata:serial_name', 'serial_name', f.get('serial_name'), 'dnd_metadata')
    _chk_f64_exact(out, 'C13:dnd-metadata:version', 'version', f.get('version'), [1.0], [1])
    ax, pr = f.get('axes'), f.get('proj')
    if ax is None or ax[0] != 'S' or ax[2] != 1 or pr is None or pr[0] != 'S' or pr[2] != 1:
        return out + [('C13:dnd-metadata', 'axes / proj are not single structs')]
    g = struct_fields(ax)

    def ratios(units):
        return [MOMENTUM_UNITS[units[0]], MOMENTUM_UNITS[units[1]], MOMENTUM_UNITS[units[2]], ENERGY_UNITS[units[3]]]

    K = 'C13:dnd-metadata:'
    _chk_str(out, K + 'axes.serial_name', 'serial_name', g.get('serial_name'), 'line_axes')
    _chk_f64_exact(out, K + 'axes.version', 'version', g.get('version'), [7.0], [1])
    _chk_str(out, K + 'axes.filename', 'filename', g.get('filename'), fname)
    _chk_str(out, K + 'axes.filepath', 'filepath', g.get('filepath'), fpath)
    _chk_str(out, K + 'axes.title', 'title', g.get('title'), a['title'])
    lab = g.get('label')
    if lab is None or lab[0] != 'K' or [as_str(x) for x in lab[2]] != list(a['label']):
        out.append((K + 'axes.label', f'labels stored {None if lab is None else [as_str(x) for x in lab[2]]}, supplied {a["label"]}'))
    _chk_f64_conv(out, K + 'axes.img_scales', 'img_scales', g.get('img_scales'), a['img_scales'], ratios(a['img_scales_units']), [4])
    flat = [v for pair in a['img_range'] for v in pair]
    rr = [r for r in ratios(a['img_range_units']) for _ in (0, 1)]
    _chk_f64_conv(out, K + 'axes.img_range', 'img_range', g.get('img_range'), flat, rr, [2, 4])
    _chk_f64_exact(out, K + 'axes.nbins_all_dims', 'nbins_all_dims', g.get('nbins_all_dims'), [float(x) for x in a['n_bins']], [4])
    _chk_bool(out, K + 'axes.single_bin_defines_iax', 'single_bin_defines_iax', g.get('single_bin_defines_iax'), a['single_bin'])
    _chk_f64_exact(out, K + 'axes.dax', 'dax (1-based)', g.get('dax'), [float(x + 1) for x in a['dax']], [4])
    _chk_f64_conv(out, K + 'axes.offset', 'offset', g.get('offset'), a['offset'], ratios(a['offset_units']), [4])
    _chk_bool(out, K + 'axes.changes_aspect_ratio', 'changes_aspect_ratio', g.get('changes_aspect_ratio'), [a['changes_aspect_ratio']])
    h = struct_fields(pr)
    _chk_str(out, K + 'proj.serial_name', 'serial_name', h.get('serial_name'), 'line_proj')
    _chk_f64_exact(out, K + 'proj.version', 'version', h.get('version'), [7.0], [1])
    _chk_f64_conv(out, K + 'proj.alatt', 'alatt [angstrom]', h.get('alatt'), p['alatt'], [LENGTH_UNITS[p['alatt_unit']]] * 3, [3])
    _chk_f64_conv(out, K + 'proj.angdeg', 'angdeg [deg]', h.get('angdeg'), p['angdeg'], [ANGLE_TO_DEG[p['angdeg_unit']]] * 3, [3])
    _chk_f64_conv(out, K + 'proj.offset', 'offset', h.get('offset'), p['offset'], ratios(p['offset_units']), [4])
    _chk_str(out, K + 'proj.title', 'title', h.get('title'), p['title'])
    lab = h.get('label')
    if lab is None or lab[0] != 'K' or [as_str(x) for x in lab[2]] != list(p['label']):
        out.append((K + 'proj.label', 'projection labels differ'))
    _chk_f64_conv(out, K + 'proj.u', 'u', h.get('u'), p['u'], [MOMENTUM_UNITS[p['u_unit']]] * 3, [3])
    _chk_f64_conv(out, K + 'proj.v', 'v', h.get('v'), p['v'], [MOMENTUM_UNITS[p['v_unit']]] * 3, [3])
    if p['w'] is None:
        _chk_f64_exact(out, K + 'proj.w', 'w (absent)', h.get('w'), [], [0])
    else:
        _chk_f64_conv(out, K + 'proj.w', 'w', h.get('w'), p['w'], [MOMENTUM_UNITS[p['w_unit']]] * 3, [3])
    _chk_bool(out, K + 'proj.nonorthogonal', 'nonorthogonal', h.get('nonorthogonal'), [p['non_orthogonal']])
    _chk_str(out, K + 'proj.type', 'type', h.get('type'), 'aaa')
    st = f.get('creation_date_str')
    st = None if st is None else as_str(st)
    if st is None or len(st) != 25 or not st.endswith('+00:00'):
        out.append((K + 'creation_date_str', f'creation date {st!r} is not an ISO time stamp in UTC'))
    # zero histogram of the declared shape
    nd = blocks.get(('data', 'nd_data'))
    nb = list(a['n_bins'])
    nel = 1
    for x in nb:
        nel *= x
    if nd is None or nd[0] != 'D' or list(nd[1]) != nb or any(len(x) != nel for x in nd[2:5]) or any(any(x) for x in nd[2:5]):
        out.append(('C13:dnd-histogram', f'histogram block is not three zero arrays of shape {nb}'))
    del tgt_m
    return out


def reader_content_violations(case: dict, data: bytes, target, tmpdir: str | None, counts=None) -> list:
    """Sqw.read_data_block(...) for every block against the independently decoded file:
    numbers bitwise, strings, shapes; unit labels must have the dimension of the written unit."""
    import warnings

    import scipp as sc
    from scippneutron.io.sqw import Sqw

    out = []
    try:
        f = decode_file(data)
    except DecodeError:
        return out  # reported by content_violations
    blocks = {(d['n0'].decode('utf-8', 'replace'), d['n1'].decode('utf-8', 'replace')): b for d, b in zip(f['descs'], f['blocks'])}
    eff = effective_ops(case)
    if hasattr(target, 'seek'):
        target.seek(case.get('_base', 0))

    def unit_check(field: str, var, written: str | None):
        u = var.unit
        if written is None:
            if u is not None and u != sc.units.dimensionless:
                out.append((f'C13:reader-unit:{field}', f'{field}: written without unit, reader labels it {u}'))
            return
        if u is None:
            return  # no label at all
        try:
            sc.to_unit(sc.scalar(1.0, unit=u), written)
        except sc.UnitError:
            out.append((f'C13:reader-unit:{field}',
                        f'{field}: written in {written}, reader labels the same numbers {u} (different physical dimension)'))
            return
        if u != sc.Unit(written):
            out.append((f'C13:reader-unit-scale:{field}', f'{field}: written in {written}, reader labels the same numbers {u}'))

    def same_bits(field: str, got, stored_obj):
        want = None if stored_obj is None else as_f64s(stored_obj)
        g = [float(x) for x in np.asarray(got, dtype='float64').ravel()]
        if want is None or [f64bits(x) for x in g] != [f64bits(x) for x in want]:
            out.append((f'C13:reader-value:{field}', f'{field}: reader returns {g!r:.100}, file holds {want!r:.100}'))

    def same_str(field: str, got, stored_obj):
        want = None if stored_obj is None else as_str(stored_obj)
        if got != want:
            out.append((f'C13:reader-value:{field}', f'{field}: reader returns {got!r:.80}, file holds {want!r:.80}'))

    def rd(sqw, name):
        with warnings.catch_warnings(record=True) as wl:
            warnings.simplefilter('always')
            r = sqw.read_data_block(name)
        if wl:
            raise RuntimeError('warning: ' + str(wl[0].message)[:100])
        return r

    try:
        cm = Sqw.open(target)
        sqw = cm.__enter__()
    except Exception as e:  # noqa: BLE001
        return [('C13:reader-open', f'Sqw.open failed: {type(e).__name__}')]
    try:
        for name, blk in blocks.items():
            tag = f'{name[0]}/{name[1]}'
            has_2d_en = name == ('experiment_info', 'expdata') and any(r['en_2d'] is not None for r in eff['P']['runs'])
            try:
                r = rd(sqw, name)
            except Exception as e:  # noqa: BLE001
                if has_2d_en:
                    out.append(('C13:reader-fails:2d-en',
                                f'read_data_block({name}) raised {type(e).__name__} for a run with one row of energy '
                                'transfers per detector (written by the builder, decodes independently)'))
                    continue
                out.append((f'C13:reader-fails:{tag}', f'read_data_block({name}) raised {type(e).__name__}: {str(e)[:80]}'))
                continue
            try:
                if name == ('', 'main_header'):
                    g = _single_struct(blk) or {}
                    same_str('main_header.full_filename', r.full_filename, g.get('full_filename'))
                    same_str('main_header.title', r.title, g.get('title'))
                    same_bits('main_header.nfiles', [float(r.nfiles)], g.get('nfiles'))
                elif name == ('pix', 'metadata'):
                    g = _single_struct(blk) or {}
                    same_str('pix_metadata.full_filename', r.full_filename, g.get('full_filename'))
                    same_bits('pix_metadata.npix', [float(r.npix)], g.get('npix'))
                    same_bits('pix_metadata.data_range', r.data_range, g.get('data_range'))
                    if tuple(r.data_range.shape) != (len(pix_spec(eff['P'])), 2):
                        out.append(('C13:reader-value:pix_metadata.data_range', f'shape {r.data_range.shape}'))
                elif name == ('pix', 'data_wrap'):
                    _, nrows, npix, arr = blk
                    got = np.ascontiguousarray(r, dtype=np.float32)
                    if got.shape != (npix, nrows) or not np.array_equal(got.view(np.uint32).ravel(), arr):
                        out.append(('C13:reader-value:pixels', f'reader returns pixel array of shape {got.shape} differing from the file'))
                elif name == ('data', 'nd_data'):
                    shape = tuple(blk[1])[::-1]
                    for arr in r:
                        if tuple(arr.shape) != shape or np.any(arr != 0):
                            out.append(('C13:reader-value:nd_data', f'reader returns histogram of shape {arr.shape}, declared {blk[1]}'))
                            break
                elif name == ('experiment_info', 'expdata'):
                    arr = (_single_struct(blk) or {}).get('array_dat')
                    if arr is None or len(r) != arr[2]:
                        out.append(('C13:reader-value:expdata', f'reader returns {len(r)} experiments'))
                        continue
                    n_before = len(out)
                    for k, e in enumerate(r):
                        g = struct_fields(arr, k)
                        same_str('experiment.filename', e.filename, g.get('filename'))
                        same_str('experiment.filepath', e.filepath, g.get('filepath'))
                        same_bits('experiment.run_id', [float(e.run_id + 1)], g.get('run_id'))
                        same_bits('experiment.efix', e.efix.values, g.get('efix'))
                        unit_check('efix', e.efix, 'meV')
                        want_shape = () if eff['P']['runs'][k]['efix_scalar'] else (len(eff['P']['runs'][k]['efix']),)
                        if tuple(e.efix.shape) != want_shape:
                            out.append(('C13:reader-value:experiment.efix', f'efix shape {e.efix.shape}, supplied {want_shape}'))
                        same_bits('experiment.emode', [float(e.emode.value)], g.get('emode'))
                        same_bits('experiment.en', e.en.values, g.get('en'))
                        r_ = eff['P']['runs'][k]
                        want_en = (len(r_['en']),) if r_['en_2d'] is None else (r_['en_2d'][0], r_['en_2d'][1])
                        if tuple(e.en.shape) != want_en:
                            key = 'C13:reader-value:experiment.en' if r_['en_2d'] is None else 'C13:reader-fails:2d-en'
                            out.append((key, f'en read back with dims {e.en.dims} shape {tuple(e.en.shape)}, supplied '
                                             f'{want_en}' + ('' if r_['en_2d'] is None else ' (detector, energy_transfer)')))
                        unit_check('en', e.en, 'meV')
                        for a in ('psi', 'omega', 'dpsi', 'gl', 'gs'):
                            same_bits('experiment.' + a, [getattr(e, a).value], g.get(a))
                            unit_check(a, getattr(e, a), 'rad')
                        same_bits('experiment.u', e.u.values, g.get('u'))
                        same_bits('experiment.v', e.v.values, g.get('v'))
                        unit_check('experiment.u', e.u, None)
                        unit_check('experiment.v', e.v, None)
                        if len(out) > n_before:
                            break
                elif name == ('experiment_info', 'instruments'):
                    op = eff['I']
                    nfiles = len(eff['P']['runs']) if 'P' in eff else 0
                    if len(r) != nfiles:
                        out.append(('C13:reader-value:instruments', f'{len(r)} instruments for {nfiles} runs'))
                    for inst in r[:2]:
                        if (inst.name, inst.source.name, inst.source.target_name) != (op['name'], op['source_name'], op['target_name']) \
                                or f64bits(float(inst.source.frequency.value)) != f64bits(op['frequency']):
                            out.append(('C13:reader-value:instrument', 'instrument read back differs from the one supplied'))
                            break
                elif name == ('experiment_info', 'samples'):
                    op = eff['S']
                    nfiles = len(eff['P']['runs']) if 'P' in eff else 0
                    if len(r) != nfiles:
                        out.append(('C13:reader-value:samples', f'{len(r)} samples for {nfiles} runs'))
                    objs = _container([], 'x', blk, 'IX_samp', 'GLOBAL_NAME_SAMPLES_CONTAINER', 1, nfiles)
                    for smp in r[:2]:
                        if objs:
                            same_str('sample.name', smp.name, objs[0].get('name'))
                            same_bits('sample.alatt', smp.lattice_spacing.values, objs[0].get('alatt'))
                            same_bits('sample.angdeg', smp.lattice_angle.values, objs[0].get('angdeg'))
                        unit_check('alatt', smp.lattice_spacing, 'angstrom')
                        unit_check('angdeg', smp.lattice_angle, 'deg')
                elif name == ('data', 'metadata'):
                    g = _single_struct(blk) or {}
                    ax = struct_fields(g['axes']) if g.get('axes') is not None and g['axes'][0] == 'S' else {}
                    pr = struct_fields(g['proj']) if g.get('proj') is not None and g['proj'][0] == 'S' else {}
                    A, P = r.axes, r.proj
                    tg = ['1/angstrom'] * 3 + ['meV']
                    same_str('axes.title', A.title, ax.get('title'))
                    same_str('axes.filename', A.filename, ax.get('filename'))
                    same_str('axes.filepath', A.filepath, ax.get('filepath'))
                    want_labels = [as_str(x) for x in ax['label'][2]] if ax.get('label') is not None else None
                    if list(A.label) != want_labels:
                        out.append(('C13:reader-value:axes.label', f'labels {A.label!r:.80} vs {want_labels!r:.80}'))
                    same_bits('axes.img_scales', [v.value for v in A.img_scales], ax.get('img_scales'))
                    same_bits('axes.img_range', [x for v in A.img_range for x in v.values], ax.get('img_range'))
                    same_bits('axes.offset', [v.value for v in A.offset], ax.get('offset'))
                    for i in range(min(4, len(A.img_scales))):
                        unit_check(f'axes.img_scales#{i}', A.img_scales[i], tg[i])
                        unit_check(f'axes.img_range#{i}', A.img_range[i], tg[i])
                        unit_check(f'axes.offset#{i}', A.offset[i], tg[i])
                    same_bits('axes.nbins_all_dims', A.n_bins_all_dims.values.astype('float64'), ax.get('nbins_all_dims'))
                    same_bits('axes.dax', A.dax.values.astype('float64') + 1.0, ax.get('dax'))
                    if [bool(b) for b in A.single_bin_defines_iax.values] != list(ax['single_bin_defines_iax'][2]):
                        out.append(('C13:reader-value:axes.single_bin_defines_iax', 'flags differ'))
                    if bool(A.changes_aspect_ratio) != ax['changes_aspect_ratio'][2][0]:
                        out.append(('C13:reader-value:axes.changes_aspect_ratio', 'flag differs'))
                    same_bits('proj.alatt', P.lattice_spacing.values, pr.get('alatt'))
                    unit_check('alatt', P.lattice_spacing, 'angstrom')
                    same_bits('proj.angdeg', P.lattice_angle.values, pr.get('angdeg'))
                    unit_check('angdeg', P.lattice_angle, 'deg')
                    same_bits('proj.offset', [v.value for v in P.offset], pr.get('offset'))
                    for i in range(min(4, len(P.offset))):
                        unit_check(f'proj.offset#{i}', P.offset[i], tg[i])
                    same_str('proj.title', P.title, pr.get('title'))
                    want_labels = [as_str(x) for x in pr['label'][2]] if pr.get('label') is not None else None
                    if list(P.label) != want_labels:
                        out.append(('C13:reader-value:proj.label', 'labels differ'))
                    for nm in ('u', 'v', 'w'):
                        v = getattr(P, nm)
                        if v is None:
                            same_bits('proj.' + nm, [], pr.get(nm))
                        else:
                            same_bits('proj.' + nm, v.values, pr.get(nm))
                            unit_check('proj.' + nm, v, '1/angstrom')
                    if bool(P.non_orthogonal) != pr['nonorthogonal'][2][0]:
                        out.append(('C13:reader-value:proj.nonorthogonal', 'flag differs'))
                elif name == ('', 'detpar'):
                    if list(r) != []:
                        out.append(('C13:reader-value:detpar', 'detector container not empty'))
            except (KeyError, IndexError, TypeError, ValueError, AttributeError) as e:
                out.append((f'C13:reader-value:{tag}', f'result of read_data_block({name}) cannot be compared with the file: {type(e).__name__}: {str(e)[:60]}'))
    finally:
        cm.__exit__(None, None, None)
    return out


# ------------------------------------------------------------------------------------------
# case streams shared by the two checks
# ------------------------------------------------------------------------------------------
def ordered_subsets():
    """every subset of the five calls in every order: 326 programs"""
    import itertools

    out = []
    for k in range(0, 6):
        for sub in itertools.combinations(KINDS, k):
            for perm in itertools.permutations(sub):
                out.append(list(perm))
    return out


def small_case(rng, ident, kinds_in_order, npix=None) -> dict:
    ops = []
    for k in kinds_in_order:
        ops.append(gen_pix_op(rng, npix=rng.choice([0, 1, 3, 10, 12]) if npix is None else npix,
                              nruns=rng.choice([1, 2, 3])) if k == 'P' else gen_op(rng, k))
    np_ = 0
    for op in ops:
        if op['k'] == 'P':
            np_ = op['npix']
    c = {'id': ident, 'order': rng.choice(['native', 'little', 'big']), 'target': rng.choice(['bytesio', 'file']),
         'dirs': [], 'fname': 'f.sqw', 'title': rand_str(rng, 0, 40),
         'chunk': rng.choice([None] + chunk_choices(np_)), 'ops': ops}
    c['history'] = gen_history(rng, c['target']) if ident >= 0 else None
    return c


def corpus_cases(prop: str):
    import glob
    import json

    d = os.path.join(os.path.dirname(os.path.dirname(os.path.abspath(__file__))), 'corpus', prop)
    for path in sorted(glob.glob(os.path.join(d, '*.json'))):
        with open(path) as f:
            yield json.load(f)['case']


def case_stream(ctx, n_random: int, all_orders: bool, sweep_npix, big, n_non_ascii: int = 0):
    """yield cases: the corpus first, then every subset of the calls (all orders in the thorough tier),
    random programs, a sweep of chunk sizes around the pixel count and the row count, big pixel blocks"""
    rng = ctx.rng
    ident = 0
    for case in corpus_cases(ctx.prop):
        ctx.count('corpus')
        yield case
    progs = ordered_subsets()
    if not all_orders:
        seen = {}
        rng.shuffle(progs)
        for p in progs:
            seen.setdefault(frozenset(p), p)
        progs = list(seen.values())
    for p in progs:
        yield small_case(rng, ident, p)
        ident += 1
    for _ in range(n_random):
        yield gen_case(rng, ident)
        ident += 1
    for npix in sweep_npix:
        for chunk in chunk_choices(npix):
            if npix * 9 > 20000 and chunk < 8:
                continue
            kinds = ['P'] + [k for k in 'ISND' if rng.random() < 0.3]
            rng.shuffle(kinds)
            c = small_case(rng, ident, kinds, npix=npix)
            c['chunk'] = chunk
            yield c
            ident += 1
    for _ in range(n_non_ascii):
        yield gen_case_non_ascii(rng, ident)
        ident += 1
    for npix, chunk in big:
        kinds = ['P'] + [k for k in 'ISND' if rng.random() < 0.5]
        rng.shuffle(kinds)
        c = small_case(rng, ident, kinds, npix=npix)
        c['chunk'] = chunk
        c['target'] = rng.choice(['bytesio', 'file'])
        yield c
        ident += 1


def case_ident(case: dict):
    eff = effective_ops(case)
    p = eff.get('P')
    return (tuple(op['k'] for op in case['ops']), case['order'], case['target'], case['chunk'], len(case['title']),
            None if p is None else (p['npix'], p['seed'], len(p['runs']), p['kind'], tuple(sorted(p['units'].items()))),
            len(case['fname']), len(case['dirs']))


def count_case(ctx, case: dict, size: int) -> None:
    eff = effective_ops(case)
    ctx.count('calls:' + (''.join(sorted(eff)) or '-'))
    ctx.count('order:' + case['order'])
    ctx.count('target:' + case['target'])
    if len(case['ops']) > len(eff):
        ctx.count('repeated-call')
    if 'P' in eff:
        n = eff['P']['npix']
        ctx.count('npix:' + ('0' if n == 0 else '1-9' if n < 10 else '10-99' if n < 100 else '100-999' if n < 1000
                             else '1e3-1e4' if n < 10000 else '>=1e4'))
        ch = 8192 if case['chunk'] is None else case['chunk']
        ctx.count('chunk:' + ('<npix' if ch < n else '=npix' if ch == n else '>npix'))
        ctx.count('chunk-vs-rows:' + ('<9' if ch < 9 else '=9' if ch == 9 else '>9'))
        ctx.count(f"runs:{len(eff['P']['runs'])}")
        ctx.count('values:' + eff['P']['kind'])
        ctx.count(f"pix-rows:{len(pix_spec(eff['P']))}")
        if eff['P'].get('row_units') and eff['P']['row_units'] != [ROW_TARGET_UNITS[r] for r in eff['P']['rows']]:
            ctx.count('pix-rows:custom-stored-units')
        for c, dt in (eff['P'].get('dtypes') or {}).items():
            if c in ('u1', 'u4', 'data'):
                ctx.count(f'dtype:{c}:{dt}')
        if any(r['emode'] == 2 for r in eff['P']['runs']):
            ctx.count('indirect-mode')
        if any(r['en_2d'] is not None for r in eff['P']['runs']):
            ctx.count('indirect-mode:2d-en')
    if has_non_ascii(case):
        ctx.count('strings:non-ascii')
    ctx.count('history:' + (case['history']['kind'] if case.get('history') else 'fresh'))
    ctx.count('size:' + ('<1k' if size < 1000 else '<10k' if size < 10000 else '<100k' if size < 100000 else '<1M' if size < 10**6 else '>=1M'))


def sample_of(case: dict, size: int) -> dict:
    eff = effective_ops(case)
    return {'calls': [op['k'] for op in case['ops']], 'order': case['order'], 'target': case['target'],
            'chunk': case['chunk'], 'npix': eff['P']['npix'] if 'P' in eff else None,
            'runs': len(eff['P']['runs']) if 'P' in eff else None, 'title_len': len(case['title']), 'bytes': size}


def try_build(case: dict, tmpdir: str):
    """-> (data, target, None) or (None, None, exception)"""
    try:
        data, target = build_real(case, tmpdir)
        return data, target, None
    except Exception as e:  # noqa: BLE001
        return None, None, e


LEAN_MAX_BYTES = 160_000


def skeleton(dump: str) -> str:
    """structure of a decoded file: everything except payload values (numbers, flags, characters)"""
    import re

    d = re.sub(r'F(\[[^\]]*\])\(([^)]*)\)', lambda m: f"F{m.group(1)}(#{0 if not m.group(2) else m.group(2).count(',') + 1})", dump)
    d = re.sub(r'L(\[[^\]]*\])\(([^)]*)\)', lambda m: f'L{m.group(1)}(#{len(m.group(2))})', d)
    d = re.sub(r'C(\[[^\]]*\])\(([^)]*)\)',
               lambda m: f"C{m.group(1)}(#{','.join(str(0 if x == '-' else len(x) // 2) for x in m.group(2).split(','))})", d)
    d = re.sub(r'P:(\d+):(\d+):[0-9a-f,]*', lambda m: f'P:{m.group(1)}:{m.group(2)}:#', d)
    d = re.sub(r'D:(\[[^\]]*\]):([0-9a-f,]*):([0-9a-f,]*):([0-9a-f,]*)',
               lambda m: f"D:{m.group(1)}:#{len(m.group(2)) // 17 + (1 if m.group(2) else 0)}", d)
    return d


def blocks_by_name(data: bytes):
    """{(n0, n1): canonical dump of the block} or None if the file does not decode"""
    try:
        f = decode_file(data)
    except DecodeError:
        return None
    return {(d['n0'], d['n1']): dump_content(b) for d, b in zip(f['descs'], f['blocks'])}


def correspond_model(ctx, cases_data, tmpdir, mode: str) -> None:
    """tie (i): the Lean decoder on the bytes of the real builder == the Python decoder, and both decode;
    tie (ii): the Lean builder model on the same abstract inputs against the real bytes —
    mode 'structure' (C12): header, table (names, types, positions, sizes), block skeletons (tags, shapes,
    field names, string lengths, element counts) must be identical;
    mode 'content' (C13): every block, looked up by name, must be identical (values bitwise, strings);
    mode 'bytes' (C12, DESIGN tie (ii)): the whole file must be identical byte for byte; the only inputs taken from
    the real file are the two time stamp strings, read from their decoded fields (main header `creation_date`,
    histogram metadata `creation_date_str`) and handed to the model."""
    lines = []
    meta = []
    for case, data in cases_data:
        if len(data) > LEAN_MAX_BYTES:
            ctx.count('lean:skipped-too-big')
            continue
        try:
            dec = decode_file(data)
            sm, sd = stamps_of(dec)
        except DecodeError:
            # undecodable file: find the time stamps in the raw bytes (main header first)
            import re

            found = [m.decode() for m in re.findall(rb'\d{4}-\d\d-\d\dT\d\d:\d\d:\d\d\+00:00', data)]
            sm = found[0] if found else ''
            sd = found[1] if len(found) > 1 else ''
        lines.append('c12.decode ' + data.hex())
        lines.append(model_create_line(case, tmpdir, sm, sd))
        meta.append((case, data))
    outs = ctx.driver(lines)
    for i, (case, data) in enumerate(meta):
        dl, cl = outs[2 * i], outs[2 * i + 1]
        dp = decode_dump(data)
        brief = {'calls': [op['k'] for op in case['ops']], 'order': case['order'], 'chunk': case['chunk'], 'id': case['id']}
        if dl != dp:
            ctx.disagree(brief, dp[:300], dl[:300], 'independent decoders (Lean, Python) differ on a file of the real builder')
        try:
            model_bytes = bytes.fromhex(cl)
        except ValueError:
            ctx.disagree(brief, 'file', cl[:40], 'Lean builder model rejected the program')
            continue
        if model_bytes == data:
            ctx.count('lean:bytes-identical')
        elif all_rows_integer(case) and pix_conversion('range') != 'to_float64':
            # no float64 row selected and the tree under test stores min/max in the dtype of the rows: the model
            # (data_range always float64) cannot express that; every such case is judged by the direct oracle
            ctx.count('lean:data-range-not-float64:left-to-oracle')
        elif not dp.startswith('ok '):
            # the real file violates the container format (reported, with a key, by the direct oracle, which
            # decodes every file); the model cannot express a malformed file, so there is nothing to compare
            ctx.count('lean:real-file-undecodable:left-to-oracle')
        elif mode == 'bytes':
            j = next((k for k in range(min(len(data), len(model_bytes))) if data[k] != model_bytes[k]),
                     min(len(data), len(model_bytes)))
            where = 'header/table'
            try:
                f = decode_file(data)
                for d in f['descs']:
                    if d['pos'] <= j < d['pos'] + d['size']:
                        where = f"block {d['n0'].decode('utf-8', 'replace')}/{d['n1'].decode('utf-8', 'replace')}"
            except DecodeError:
                pass
            ctx.disagree({**brief, 'first_difference_at_byte': j, 'in': where},
                         f'{len(data)} bytes, …{data[max(0, j - 12):j + 12].hex()}…',
                         f'{len(model_bytes)} bytes, …{model_bytes[max(0, j - 12):j + 12].hex()}…',
                         'file written by the real builder differs from the bytes of the Lean builder model')
        elif mode == 'structure':
            a, b = skeleton(dp), skeleton(decode_dump(model_bytes))
            if a != b:
                j = next((k for k in range(min(len(a), len(b))) if a[k] != b[k]), min(len(a), len(b)))
                ctx.disagree(brief, a[max(0, j - 60):j + 60], b[max(0, j - 60):j + 60],
                             'structure written by the real builder differs from the Lean builder model')
            else:
                ctx.count('lean:structure-identical-content-differs')
        else:
            a, b = blocks_by_name(data), blocks_by_name(model_bytes)
            if a is None or b is None or set(a) != set(b):
                ctx.disagree(brief, None if a is None else sorted(a), None if b is None else sorted(b),
                             'blocks written by the real builder and by the Lean builder model differ')
            else:
                for n in a:
                    if a[n] != b[n]:
                        j = next((k for k in range(min(len(a[n]), len(b[n]))) if a[n][k] != b[n][k]), 0)
                        ctx.disagree({**brief, 'block': [x.decode('utf-8', 'replace') for x in n]}, a[n][max(0, j - 60):j + 60],
                                     b[n][max(0, j - 60):j + 60], 'block content differs between real builder and Lean model')
                        break
                else:
                    ctx.count('lean:content-identical-layout-differs')
        ctx.count('lean:decoded+encoded')


# ------------------------------------------------------------------------------------------
# the package reader against its Lean model (`c13.readblock`)
# ------------------------------------------------------------------------------------------
def _bits_plus(vals) -> str:
    return '+'.join('%016x' % f64bits(float(v)) for v in np.asarray(vals, dtype='float64').ravel())


def real_readblock(sqw, name) -> str:
    """canonical text of `Sqw.read_data_block(name)` for a regular block, in the format of the driver op
    `c13.readblock`; 'none' when the reader raises or gives up"""
    import warnings

    from scippneutron.io.sqw import SqwIXExperiment, SqwIXNullInstrument, SqwIXSample, SqwMainHeader
    from scippneutron.io.sqw._models import SqwDndMetadata, SqwPixelMetadata

    try:
        with warnings.catch_warnings(record=True) as wl:
            warnings.simplefilter('always')
            r = sqw.read_data_block(name)
        if wl:
            return 'none'
    except Exception:  # noqa: BLE001
        return 'none'
    if isinstance(r, SqwMainHeader):
        return f"main|{_s(r.full_filename)}|{_s(r.title)}|{r.nfiles}|{_s(r.creation_date.isoformat(timespec='seconds'))}"
    if isinstance(r, SqwPixelMetadata):
        return f"pix|{_s(r.full_filename)}|{r.npix}|{'x'.join(str(d) for d in r.data_range.shape)}|{_bits_plus(r.data_range)}"
    if isinstance(r, SqwDndMetadata):
        A, P = r.axes, r.proj

        def vec(v):
            return '' if v is None else _bits_plus(v.values)

        axes = ','.join([
            _s(A.title), '+'.join(_s(x) for x in A.label), _bits_plus([v.value for v in A.img_scales]),
            _bits_plus([x for v in A.img_range for x in v.values]), 'x'.join(str(int(n)) for n in A.n_bins_all_dims.values),
            ''.join('1' if b else '0' for b in A.single_bin_defines_iax.values), 'x'.join(str(int(n)) for n in A.dax.values),
            _bits_plus([v.value for v in A.offset]), '1' if A.changes_aspect_ratio else '0', _s(A.filename), _s(A.filepath)])
        proj = ','.join([
            vec(P.lattice_spacing), vec(P.lattice_angle), _bits_plus([v.value for v in P.offset]), _s(P.title),
            '+'.join(_s(x) for x in P.label), vec(P.u), vec(P.v), vec(P.w), '1' if P.non_orthogonal else '0'])
        return 'dnd|' + axes + '|' + proj + '|' + _s(r.creation_date.isoformat(timespec='seconds'))
    if isinstance(r, list) and r and isinstance(r[0], SqwIXExperiment):
        out = []
        for e in r:
            out.append(','.join([
                _s(e.filename), _s(e.filepath), str(e.run_id), _bits_plus(e.efix.values), '1' if e.efix.ndim == 0 else '0',
                str(e.emode.value), 'x'.join(str(d) for d in e.en.shape), _bits_plus(e.en.values),
                '%016x' % f64bits(e.psi.value), _bits_plus(e.u.values), _bits_plus(e.v.values),
                '%016x' % f64bits(e.omega.value), '%016x' % f64bits(e.dpsi.value), '%016x' % f64bits(e.gl.value),
                '%016x' % f64bits(e.gs.value), '1' if str(e.psi.unit) == 'deg' else '0']))
        return 'exps|' + ';'.join(out)
    if isinstance(r, list):
        uniq = []
        idx = []
        for x in r:
            for k, u in enumerate(uniq):
                if u is x:
                    idx.append(k)
                    break
            else:
                uniq.append(x)
                idx.append(len(uniq) - 1)
        objs = []
        for x in r:
            if isinstance(x, SqwIXSample):
                objs.append(f'sample,{_s(x.name)},{_bits_plus(x.lattice_spacing.values)},{_bits_plus(x.lattice_angle.values)}')
            elif isinstance(x, SqwIXNullInstrument):
                objs.append(f"inst,{_s(x.name)},{_s(x.source.name)},{_s(x.source.target_name)},"
                            f"{'%016x' % f64bits(float(x.source.frequency.value))}")
            else:
                return 'none'
        return f"cont|{','.join(str(i) for i in idx)}|" + ';'.join(objs)
    return 'none'


def correspond_reader(ctx, cases_data_targets) -> None:
    """`Sqw.read_data_block` on the real file against the Lean model of the reader on the same bytes"""
    from scippneutron.io.sqw import Sqw

    lines = []
    meta = []
    for case, data, target in cases_data_targets:
        if len(data) > LEAN_MAX_BYTES:
            continue
        try:
            f = decode_file(data)
        except DecodeError:
            continue
        if hasattr(target, 'seek'):
            target.seek(case.get('_base', 0))
        try:
            cm = Sqw.open(target)
            sqw = cm.__enter__()
        except Exception:  # noqa: BLE001
            continue
        try:
            for d in f['descs']:
                if d['ty'] != b'data_block':
                    continue
                name = (d['n0'].decode('utf-8', 'replace'), d['n1'].decode('utf-8', 'replace'))
                real = real_readblock(sqw, name)
                lines.append(f"c13.readblock {f['order']} " + data[d['pos']:d['pos'] + d['size']].hex())
                meta.append((case, name, real))
        finally:
            cm.__exit__(None, None, None)
    outs = ctx.driver(lines)
    for (case, name, real), model in zip(meta, outs):
        ctx.count('reader-model:' + real.split('|')[0])
        ctx.case(('reader-model', case['id'], name, len(real)), True)
        if real != model:
            j = next((k for k in range(min(len(real), len(model))) if real[k] != model[k]), min(len(real), len(model)))
            ctx.disagree({'calls': [op['k'] for op in case['ops']], 'id': case['id'], 'block': list(name)},
                         real[max(0, j - 50):j + 50], model[max(0, j - 50):j + 50],
                         'package reader and its Lean model return different results for a block of a real file')
