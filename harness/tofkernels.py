"""Shared machinery of the C01 and C07 checks: the table of conversion kernels (arguments, quantity kinds,
documented output unit, data operands), unit scales, value generators, calling the real kernels on scipp
variables of any unit / dtype / shape, the protocol lines for the Lean model and an *independent* exact
reference (50-digit `decimal` arithmetic on the exact values of the floating-point inputs; `sin` from its
Taylor series, `pi` from Machin's formula) of the physical formulas in the property statements.
"""
from __future__ import annotations

import math
import struct
from decimal import Decimal, getcontext
from fractions import Fraction

import numpy as np

getcontext().prec = 60
D = Decimal

# ---- exact constants -----------------------------------------------------------------------------


def _machin_pi() -> Decimal:
    def arctan_inv(n: int) -> Decimal:  # arctan(1/n)
        x = D(1) / n
        x2 = x * x
        term, total, k = x, x, 1
        while abs(term) > D(10) ** -70:
            term = -term * x2
            k += 2
            total += term / k
        return total

    old = getcontext().prec
    getcontext().prec = 80
    try:
        return +(16 * arctan_inv(5) - 4 * arctan_inv(239))
    finally:
        getcontext().prec = old


PI = _machin_pi()


def dsin(x: Decimal) -> Decimal:
    """sin of a Decimal (|x| up to a few units) by Taylor series, ~55 digits"""
    x2 = x * x
    term, total, k = x, x, 1
    while abs(term) > D(10) ** -65:
        term = -term * x2 / ((k + 1) * (k + 2))
        k += 2
        total += term
    return total


EV = D(1602176634) / D(10) ** 28  # J per eV (SI 2019, exact)

#: SI scale of every unit of the grid, as exact decimals (deg: pi/180 to 80 digits)
SCALE: dict[str, Decimal] = {
    'ps': D(10) ** -12, 'ns': D(10) ** -9, 'us': D(10) ** -6, 'ms': D(10) ** -3, 's': D(1),
    'fm': D(10) ** -15, 'pm': D(10) ** -12, 'angstrom': D(10) ** -10, 'nm': D(10) ** -9, 'um': D(10) ** -6,
    'mm': D(10) ** -3, 'cm': D(10) ** -2, 'm': D(1), 'km': D(10) ** 3,
    'neV': EV * D(10) ** -9, 'ueV': EV * D(10) ** -6, 'meV': EV * D(10) ** -3, 'eV': EV, 'keV': EV * D(10) ** 3, 'J': D(1),
    'rad': D(1), 'deg': PI / 180,
    # Q units: 1/m per unit
    '1/pm': D(10) ** 12, '1/angstrom': D(10) ** 10, '1/nm': D(10) ** 9, '1/um': D(10) ** 6, '1/mm': D(10) ** 3, '1/m': D(1),
    'm/s^2': D(1), 'mm/s^2': D(10) ** -3, 'km/s^2': D(10) ** 3, 'cm/s^2': D(10) ** -2,
}
SI_BASE = {
    'ps': 's', 'ns': 's', 'us': 's', 'ms': 's', 's': 's',
    'fm': 'm', 'pm': 'm', 'angstrom': 'm', 'nm': 'm', 'um': 'm', 'mm': 'm', 'cm': 'm', 'm': 'm', 'km': 'm',
    'neV': 'J', 'ueV': 'J', 'meV': 'J', 'eV': 'J', 'keV': 'J', 'J': 'J', 'rad': 'rad', 'deg': 'rad',
    '1/pm': '1/m', '1/angstrom': '1/m', '1/nm': '1/m', '1/um': '1/m', '1/mm': '1/m', '1/m': '1/m',
}

_LENGTHS = ['fm', 'pm', 'angstrom', 'nm', 'um', 'mm', 'cm', 'm', 'km']
#: the unit grid: SI-prefixed units from far below to far above the natural scale of every quantity kind
UNITS = {
    'time': ['ps', 'ns', 'us', 'ms', 's'],
    'length': list(_LENGTHS),
    'wavelength': list(_LENGTHS),
    'energy': ['neV', 'ueV', 'meV', 'eV', 'keV', 'J'],
    'angle': ['deg', 'rad'],
    'Q': ['1/pm', '1/angstrom', '1/nm', '1/um', '1/mm', '1/m'],
}
#: units in which a kernel's internal unit conversions are no-ops (used by the call-twice cells of C07)
SI_UNIT = {'time': 's', 'length': 'm', 'wavelength': 'm', 'energy': 'J', 'angle': 'rad', 'Q': '1/m', 'beam': 'm', 'gravity': 'm/s^2'}
NATURAL_UNIT = {'time': 'us', 'length': 'm', 'wavelength': 'angstrom', 'energy': 'meV', 'angle': 'rad', 'Q': '1/angstrom',
                'beam': 'm', 'gravity': 'm/s^2'}
DTYPES = ['float64', 'float32', 'int64', 'int32']
SHORT = {'float64': 'f64', 'float32': 'f32', 'int64': 'i64', 'int32': 'i32'}
LONG = {v: k for k, v in SHORT.items()}

#: moderate physical ranges (SI) of the C07 grid: every intermediate of every kernel stays a normal
#: float32 number for every unit choice
MODERATE = {
    'time': (1e-6, 1.0), 'length': (1e-3, 1e3), 'wavelength': (1e-11, 1e-8), 'energy': (1e-24, 1e-18),
    'angle': (1e-3, math.pi), 'Q': (1e8, 1e12),
}
#: the ranges of C01's quantifier (SI), double precision
WIDE = {
    'time': (1e-9, 1e9), 'length': (1e-9, 1e9), 'wavelength': (1e-9, 1e9), 'energy': (1e-9, 1e9),
    'angle': (1e-12, math.pi), 'Q': (1e-9, 1e9),
}
#: single precision: narrower so that results and intermediates neither overflow nor underflow in float32
WIDE32 = {
    'time': (1e-6, 1e6), 'length': (1e-6, 1e6), 'wavelength': (1e-12, 1e-4), 'energy': (1e-26, 1e-12),
    'angle': (1e-6, math.pi), 'Q': (1e4, 1e14),
}


def scale_float(unit: str) -> float:
    return float(SCALE[unit])


def check_scales_against_scipp() -> list[str]:
    """the exact scale table against what scipp itself uses (4e-16 relative); units scipp cannot parse or convert are
    removed from the grids (reported by `unsupported_units`)"""
    import scipp as sc

    bad = []
    for u, base in SI_BASE.items():
        try:
            got = float(sc.to_unit(sc.scalar(1.0, unit=u), base).value)
        except Exception:  # noqa: BLE001
            for lst in UNITS.values():
                if u in lst:
                    lst.remove(u)
            if u not in UNSUPPORTED:
                UNSUPPORTED.append(u)
            continue
        want = float(SCALE[u])
        if not abs(got - want) <= 4e-16 * abs(want):
            bad.append(f'{u}: scipp {got!r} table {want!r}')
    return bad


UNSUPPORTED: list[str] = []


def constants() -> tuple[float, float]:
    import scipp.constants as const

    h, mn = const.h, const.m_n
    assert str(h.unit) == 'J*s' and str(mn.unit) == 'kg', (h.unit, mn.unit)
    return float(h.value), float(mn.value)


# ---- bit patterns --------------------------------------------------------------------------------

def bits64(x: float) -> str:
    return struct.pack('>d', float(x)).hex()


def bits32(x) -> str:
    return struct.pack('>f', float(np.float32(x))).hex()


def tok(x, dtype: str) -> str:
    """protocol token of one element"""
    if dtype == 'float64':
        return 'f64:' + bits64(x)
    if dtype == 'float32':
        return 'f32:' + bits32(x)
    return f'{SHORT[dtype]}:{int(x)}'


def untok(t: str):
    """('f64'|'f32'|'i64'|'i32'|'err', python value or None); 'nan' payload -> nan"""
    if t.startswith('err'):
        return ('err', None)
    k, v = t.split(':', 1)
    if k == 'f64':
        return (k, float('nan') if v == 'nan' else struct.unpack('>d', bytes.fromhex(v))[0])
    if k == 'f32':
        return (k, float('nan') if v == 'nan' else struct.unpack('>f', bytes.fromhex(v))[0])
    return (k, int(v))


def exact(x) -> Decimal:
    """the exact value of a float / numpy scalar / int"""
    if isinstance(x, (int, np.integer)):
        return D(int(x))
    f = Fraction(float(x))
    return D(f.numerator) / D(f.denominator)


# ---- kernel table --------------------------------------------------------------------------------

class Kernel:
    def __init__(self, name, args, data, lean, out_unit, ref, module='tof', scalars=()):
        self.name = name            # python function name
        self.args = args            # [(argument name, quantity kind)]
        self.data = data            # names of the data operands (decide the precision class)
        self.lean = lean            # op name in Model/TofKernels.evalKernel (None: not modelled in Lean)
        self.out_unit = out_unit    # callable(units: dict) -> documented unit string
        self.ref = ref              # callable(h, mn, phys: dict[str, Decimal]) -> physical result (SI) or None (NaN)
        self.module = module
        self.scalars = scalars

    def func(self):
        import importlib

        mod = importlib.import_module('scippneutron.conversion.' + self.module)
        return getattr(mod, self.name)


def _lam(h, mn, p):
    return h * p['tof'] / (mn * p['Ltotal'])


def _half_sin(p):
    return dsin(p['two_theta'] / 2)


KERNELS: dict[str, Kernel] = {}


def _k(*a, **kw):
    k = Kernel(*a, **kw)
    KERNELS[k.name] = k


_k('wavelength_from_tof', [('tof', 'time'), ('Ltotal', 'length')], ['tof'], 'wft',
   lambda u: 'angstrom', lambda h, mn, p: _lam(h, mn, p))
_k('dspacing_from_tof', [('tof', 'time'), ('Ltotal', 'length'), ('two_theta', 'angle')], ['tof'], 'dft',
   lambda u: 'angstrom', lambda h, mn, p: _lam(h, mn, p) / (2 * _half_sin(p)))
_k('energy_from_tof', [('tof', 'time'), ('Ltotal', 'length')], ['tof'], 'eft',
   lambda u: 'meV', lambda h, mn, p: mn * p['Ltotal'] ** 2 / (2 * p['tof'] ** 2))
_k('energy_from_wavelength', [('wavelength', 'wavelength')], ['wavelength'], 'efw',
   lambda u: 'meV', lambda h, mn, p: h ** 2 / (2 * mn * p['wavelength'] ** 2))
_k('wavelength_from_energy', [('energy', 'energy')], ['energy'], 'wfe',
   lambda u: 'angstrom', lambda h, mn, p: h / (2 * mn * p['energy']).sqrt())
_k('Q_from_wavelength', [('wavelength', 'wavelength'), ('two_theta', 'angle')], ['wavelength'], 'qfw',
   lambda u: '1/' + u['wavelength'], lambda h, mn, p: 4 * PI * _half_sin(p) / p['wavelength'])
_k('wavelength_from_Q', [('Q', 'Q'), ('two_theta', 'angle')], ['Q'], 'wfq',
   lambda u: 'angstrom', lambda h, mn, p: 4 * PI * _half_sin(p) / p['Q'])
_k('dspacing_from_wavelength', [('wavelength', 'wavelength'), ('two_theta', 'angle')], ['wavelength'], 'dfw',
   lambda u: 'angstrom', lambda h, mn, p: p['wavelength'] / (2 * _half_sin(p)))
_k('dspacing_from_energy', [('energy', 'energy'), ('two_theta', 'angle')], ['energy'], 'dfe',
   lambda u: 'angstrom', lambda h, mn, p: h / ((8 * mn * p['energy']).sqrt() * _half_sin(p)))

ELASTIC = list(KERNELS)

#: physical dimension of each kernel's result: SI scale of the documented output unit
def out_scale(kernel: Kernel, units: dict) -> Decimal:
    u = kernel.out_unit(units)
    if u.startswith('1/'):
        return 1 / SCALE[u[2:]]
    return SCALE[u]


def lean_line(prefix: str, kernel: Kernel, units: dict, toks: dict, h: float, mn: float) -> str:
    """protocol line `<prefix>.k <op> <constants and scales as f64> <operand tokens>`"""
    f = lambda x: 'f64:' + bits64(x)  # noqa: E731
    sA, sMeV = scale_float('angstrom'), scale_float('meV')
    n = kernel.lean
    if n == 'wft':
        pre = [h, mn, sA, scale_float(units['Ltotal']), scale_float(units['tof'])]
        ops = ['tof', 'Ltotal']
    elif n == 'dft':
        pre = [h, mn, sA, scale_float(units['Ltotal']), scale_float(units['tof']), scale_float(units['two_theta'])]
        ops = ['tof', 'Ltotal', 'two_theta']
    elif n == 'eft':
        pre = [mn, sMeV, scale_float(units['Ltotal']), scale_float(units['tof'])]
        ops = ['tof', 'Ltotal']
    elif n == 'efw':
        pre = [h, mn, sMeV, scale_float(units['wavelength'])]
        ops = ['wavelength']
    elif n == 'wfe':
        pre = [h, mn, sA, scale_float(units['energy'])]
        ops = ['energy']
    elif n == 'qfw':
        pre = [scale_float(units['two_theta'])]
        ops = ['wavelength', 'two_theta']
    elif n == 'wfq':
        pre = [scale_float(units['two_theta']), float(1 / SCALE[units['Q']]), sA]
        ops = ['Q', 'two_theta']
    elif n == 'dfw':
        pre = [sA, scale_float(units['wavelength']), scale_float(units['two_theta'])]
        ops = ['wavelength', 'two_theta']
    elif n == 'dfe':
        pre = [h, mn, sA, scale_float(units['energy']), scale_float(units['two_theta'])]
        ops = ['energy', 'two_theta']
    else:
        raise KeyError(n)
    return f'{prefix}.k {n} ' + ' '.join([f(x) for x in pre] + [toks[o] for o in ops])


def lean_dtype_line(prefix: str, kernel: Kernel, dtypes: dict) -> str:
    n = kernel.lean
    npre = {'wft': 5, 'dft': 6, 'eft': 4, 'efw': 4, 'wfe': 4, 'qfw': 1, 'wfq': 3, 'dfw': 3, 'dfe': 5}[n]
    return f'{prefix}.dt {n} ' + ' '.join(['f64'] * npre + [SHORT[dtypes[a]] for a, _ in kernel.args])


# ---- value generation ----------------------------------------------------------------------------

def log_uniform(rng, lo, hi):
    return math.exp(rng.uniform(math.log(lo), math.log(hi)))


INT_MAX = {'int32': 2 ** 31 - 1, 'int64': 10 ** 15}
#: (kernel, argument) pairs whose integer operand the UNCHANGED code squares in integer arithmetic (`x ** 2` on the raw
#: operand): there the square must fit the type, for every other integer operand the code converts to floating point first
#: and the whole range of the type (int32: 2^31-1, int64: 1e15 < 2^53) is legitimate input
INT_SQUARED_RAW = {
    ('energy_from_wavelength', 'wavelength'),
    ('energy_transfer_direct_from_tof', 'L2'),
    ('energy_transfer_indirect_from_tof', 'L1'),
}


def int_cap(kernel_name: str, arg: str, dtype: str, result_single: bool):
    """largest integer value to draw for this operand, or None for the historic small integers (cells with a float32
    result, where a huge integer operand overflows float32 legitimately)"""
    if result_single or dtype not in INT_MAX:
        return None
    if (kernel_name, arg) in INT_SQUARED_RAW:
        return 46340 if dtype == 'int32' else 3_037_000_499  # floor(sqrt(2^31-1)), floor(sqrt(2^63-1))
    return INT_MAX[dtype]


def draw_value(rng, kind: str, unit: str, dtype: str, ranges, int_max=None) -> float | int:
    """a value of quantity `kind` expressed in `unit`, of element type `dtype`.  Floats: log-uniform physical
    magnitude over `ranges[kind]`, boundary angles over-weighted.  Integers *in the given unit*: with `int_max` 60 %
    log-uniform over 1..int_max (20 % of those exactly at the top of the range), else small numbers 1..2000."""
    if dtype in ('int64', 'int32'):
        if kind == 'angle':
            return rng.randint(1, 180) if unit == 'deg' else rng.randint(1, 3)
        if int_max and rng.random() < 0.6:
            if rng.random() < 0.2:
                return int_max - rng.randint(0, 3)
            return max(1, int(math.exp(rng.uniform(0.0, math.log(int_max)))))
        return rng.choice([1, 2, 3, 5, 7]) if rng.random() < 0.2 else rng.randint(1, 2000)
    lo, hi = ranges[kind]
    if kind == 'angle':
        r = rng.random()
        if r < 0.1:
            phys = math.pi  # back-scattering, exactly the closed end of (0, pi]
        elif r < 0.2:
            phys = math.pi * (1 - 10 ** rng.uniform(-12, -3))
        elif r < 0.35:
            phys = log_uniform(rng, lo, 1e-2)
        else:
            phys = rng.uniform(1e-2, math.pi)
        v = phys / scale_float(unit)
        if unit == 'deg':
            v = min(v, 180.0)
    else:
        v = log_uniform(rng, lo, hi) / scale_float(unit)
    if dtype == 'float32':
        v32 = np.float32(v)
        if kind == 'angle':  # keep inside (0, pi] after rounding to single precision
            top = np.float32(180.0) if unit == 'deg' else np.nextafter(np.float32(math.pi), np.float32(0))
            v32 = min(v32, top)
        return float(v32)
    if kind == 'angle' and unit == 'rad':
        v = min(v, math.pi)
    return float(v)


def make_var(values, unit: str, dtype: str, dims: list[str], shape: list[int]):
    import scipp as sc

    arr = np.asarray(values, dtype=dtype).reshape(shape)
    if not dims:
        return sc.scalar(arr.reshape(()).item() if dtype.startswith('int') else arr.reshape(())[()], unit=unit, dtype=dtype)
    return sc.array(dims=dims, values=arr, unit=unit, dtype=dtype)


def err_kind(e: Exception) -> str:
    import scipp as sc

    if isinstance(e, sc.DTypeError):
        return 'err:dtype'
    if isinstance(e, sc.UnitError):
        return 'err:unit'
    if isinstance(e, sc.DimensionError):
        return 'err:dimension'
    if isinstance(e, ValueError):
        return 'err:value'
    if isinstance(e, TypeError):
        return 'err:type'
    return 'err:other:' + type(e).__name__


def unit_is(unit, expected: str) -> bool:
    import scipp as sc

    try:
        return unit == sc.Unit(expected)
    except Exception:  # noqa: BLE001
        return False


def rel_err(got: float, want: Decimal) -> float:
    """|got - want| / |want| evaluated exactly (Decimal), returned as float"""
    if want == 0:
        return 0.0 if got == 0 else math.inf
    if math.isnan(got) or math.isinf(got):
        return math.inf
    return float(abs(exact(got) - want) / abs(want))


def result_class(dtype: str) -> str:
    """the precision class is that of the RESULT: a float64 result must be within 1e-11 of the exact formula evaluated
    on the inputs as given (a float32 or integer operand is an exactly representable input), a float32 result within 1e-5"""
    return 'single' if dtype == 'float32' else 'double'


TOL = {'double': 1e-11, 'single': 1e-5}


def f32_operands(dtypes: dict) -> list[str]:
    return sorted(a for a, d in dtypes.items() if d == 'float32')


def mixed_precision_key(prop: str, name: str, dtypes: dict, result_dtype: str, err: float):
    """a float64 result that is only single-precision accurate (1e-11 <= error < 1e-5) because some float32 operand
    was combined in single precision before the promotion gets its own key per kernel; the witness and the message
    name the float32 operands"""
    if result_dtype == 'float64' and f32_operands(dtypes) and err < 1e-5:
        return f'{prop}:mixed-precision:{name}'
    return None


_PROBE: dict = {}


def scipp_pow_supported(dtype: str) -> bool:
    """does scipp define `x ** 2` for this element type? (probed on the primitive, not assumed)"""
    if dtype not in _PROBE:
        import scipp as sc

        try:
            _ = sc.scalar(3, dtype=dtype) ** 2
            _ = sc.scalar(3, dtype=dtype) ** sc.scalar(2, dtype=dtype)
            _PROBE[dtype] = True
        except sc.DTypeError:
            _PROBE[dtype] = False
    return _PROBE[dtype]


#: operands the *formula* squares (E = m L^2 / 2 t^2, E = h^2 / 2 m lambda^2, Delta E: L1^2, L2^2)
SQUARED = {
    'energy_from_wavelength': ['wavelength'],
    'energy_transfer_direct_from_tof': ['L1', 'L2'], 'energy_transfer_indirect_from_tof': ['L1', 'L2'],
}


def unsupported_by_scipp(name, dtypes) -> bool:
    return any(not scipp_pow_supported(dtypes[a]) for a in SQUARED.get(name, []))


def expected_dtype(kernel: Kernel, dtypes: dict) -> str:
    """the contract of C07: single precision iff every data operand is float32"""
    return 'float32' if all(dtypes[a] == 'float32' for a in kernel.data) else 'float64'


# ---- more exact functions (gravity / geometry references) ----------------------------------------

def datan(x: Decimal) -> Decimal:
    """arctan of a Decimal: three halvings of the angle, then the Taylor series (~55 digits)"""
    if x < 0:
        return -datan(-x)
    if x > 1:
        return PI / 2 - datan(1 / x)
    k = 0
    while x > D('0.05'):
        x = x / (1 + (1 + x * x).sqrt())
        k += 1
    x2 = x * x
    term, total, n = x, x, 1
    while abs(term) > D(10) ** -65:
        term = -term * x2
        n += 2
        total += term / n
    return total * (2 ** k)


def datan2(y: Decimal, x: Decimal) -> Decimal:
    if x > 0:
        return datan(y / x)
    if x < 0:
        return datan(y / x) + (PI if y >= 0 else -PI)
    return PI / 2 if y > 0 else (-PI / 2 if y < 0 else D(0))


def vdot(a, b):
    return a[0] * b[0] + a[1] * b[1] + a[2] * b[2]


def vnorm(a):
    return vdot(a, a).sqrt()


def vcross(a, b):
    return (a[1] * b[2] - a[2] * b[1], a[2] * b[0] - a[0] * b[2], a[0] * b[1] - a[1] * b[0])


def vangle(a, b):
    """angle between two vectors (Kahan's formula in exact arithmetic)"""
    na, nb = vnorm(a), vnorm(b)
    ua = tuple(c / na for c in a)
    ub = tuple(c / nb for c in b)
    return 2 * datan2(vnorm(tuple(p - q for p, q in zip(ua, ub))), vnorm(tuple(p + q for p, q in zip(ua, ub))))
