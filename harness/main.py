from __future__ import annotations

import argparse
import os
import sys

from .framework import run_check


def main() -> int:
    ap = argparse.ArgumentParser()
    ap.add_argument('prop')
    ap.add_argument('--tier', default=os.environ.get('VERIF_TIER', 'quick'), choices=['quick', 'thorough'])
    ap.add_argument('--replay')
    ap.add_argument('--seed', type=int, default=int(os.environ.get('VERIF_SEED', '0') or 0))
    a = ap.parse_args()
    repo = os.environ.get('SCN_REPO', '/repo')
    src = os.path.join(repo, 'src')
    # the harness must exercise the working tree of `repo`
    sys.path.insert(0, src)
    import scippneutron

    if not os.path.abspath(scippneutron.__file__).startswith(os.path.abspath(src)):
        print(f'scippneutron imported from {scippneutron.__file__}, expected under {src}', file=sys.stderr)
        return 2
    try:
        return run_check(a.prop.upper(), a.tier, a.seed, repo, a.replay)
    except KeyboardInterrupt:
        return 2
    except Exception:  # noqa: BLE001
        import traceback

        traceback.print_exc()
        return 2


if __name__ == '__main__':
    sys.exit(main())
