"""Translator: the conversion-graph tables of scippneutron -> lean/ScnVerif/Gen/Graphs.lean.

What is extracted (by importing the package from ``<repo>/src`` and walking the objects):

* ``conversion.graph.tof._GRAPH_DYNAMICS_BY_ORIGIN``            -> ``dynamics``
* ``conversion.graph.beamline._SCATTER_GRAPH_BEAMLINE``          -> ``scatterBeamline``
* ``conversion.graph.beamline._NO_SCATTER_GRAPH_BEAMLINE``       -> ``noScatterBeamline``
* the result of every public graph factory of both modules for every argument that does not raise
  ``KeyError``                                                     -> ``factories``
  (``direct_inelastic`` / ``indirect_inelastic`` keep their table inline, so the model reads it
  from here)

Every graph (a ``dict``) becomes a list of rules ``⟨outputs, kernel, inputs⟩`` in dict order.
Names and kernels are natural-number codes (kernel-friendly ``decide``):

* coordinate names: the fixed ``BASE_NAMES`` (the same list, in the same order, is
  ``ScnVerif.Convert.baseNames`` in ``Model/Convert.lean``; the driver op ``c02.names`` lets the
  correspondence check that both sides agree), then every other name occurring in a graph, sorted;
* kernels: code 0 is the *rename* pseudo kernel (a graph value that is a string), then the
  qualified function names, sorted.

Inputs of a kernel are read exactly as ``scipp.coords.rule._arg_names`` does
(``inspect.getfullargspec``: positional then keyword-only names, honouring
``__transform_coords_input_keys__``).

A rank table per origin (longest distance from a leaf in the union of all graphs that can be
assembled for that origin) is emitted as a *certificate*; Lean re-checks it (`graphs_ranked`).
"""
from __future__ import annotations

import importlib
import inspect
import os
import sys
from functools import partial

from .util import GEN_DIR, lean_str, write_if_changed

BASE_NAMES = [
    'position', 'source_position', 'sample_position', 'incident_beam', 'scattered_beam',
    'L1', 'L2', 'Ltotal', 'two_theta', 'incident_energy', 'final_energy',
    'tof', 'wavelength', 'energy', 'Q', 'dspacing', 'energy_transfer',
    'Q_vec', 'Qx', 'Qy', 'Qz', 'hkl_vec', 'h', 'k', 'l', 'ub_matrix', 'time_at_sample',
]
ORIGINS = ['energy', 'tof', 'Q', 'wavelength']
START_CANDIDATES = ['dspacing', 'energy', 'tof', 'Q', 'wavelength']


# public factories that the Lean model computes from the tables (index = `factoryModel` id in
# Model/Convert.lean); the remaining public factories return literal dicts
MODELLED = [
    'beamline.beamline', 'beamline.two_theta', 'beamline.Ltotal', 'tof.elastic', 'tof.kinematic',
    'tof.elastic_dspacing', 'tof.elastic_energy', 'tof.elastic_Q', 'tof.elastic_Q_vec', 'tof.elastic_hkl',
    'tof.elastic_wavelength', 'tof.direct_inelastic', 'tof.indirect_inelastic',
]


class Untranslatable(Exception):
    pass


def _modules(repo: str | None):
    if repo is not None:
        src = os.path.join(repo, 'src')
        if src not in sys.path:
            sys.path.insert(0, src)
    gt = importlib.import_module('scippneutron.conversion.graph.tof')
    gb = importlib.import_module('scippneutron.conversion.graph.beamline')
    if repo is not None:
        src = os.path.abspath(os.path.join(repo, 'src'))
        for m in (gt, gb):
            if not os.path.abspath(m.__file__).startswith(src):
                raise RuntimeError(f'{m.__name__} imported from {m.__file__}, expected under {src}')
    return gt, gb


def arg_names(func) -> list[str]:
    """coordinate names consumed by ``func``, as scipp.coords.rule._arg_names computes them"""
    spec = inspect.getfullargspec(func)
    if spec.varargs is not None or spec.varkw is not None:
        raise Untranslatable(f'variable arguments in {func!r}')
    if inspect.isfunction(func) or getattr(func, '__class__', None) == partial:
        args = spec.args
    else:
        args = spec.args[1:]
    names = tuple(args + spec.kwonlyargs)
    return list(getattr(func, '__transform_coords_input_keys__', names))


def kernel_name(v) -> str:
    if isinstance(v, str):
        return '<rename>'
    mod = getattr(v, '__module__', '?')
    mod = mod.replace('scippneutron.conversion.', '')
    return f'{mod}.{getattr(v, "__qualname__", repr(v))}'


def graph_rules(g: dict) -> list[tuple[tuple[str, ...], str, tuple[str, ...]]]:
    """dict -> [(outputs, kernel name, inputs)] in dict order"""
    out = []
    for key, val in g.items():
        if isinstance(key, str):
            outs = (key,)
        elif isinstance(key, tuple) and len(key) >= 2 and all(isinstance(k, str) for k in key):
            outs = key
        else:
            # a 1-tuple key would be a different dict key than the bare string: not representable
            raise Untranslatable(f'graph key {key!r}')
        if isinstance(val, str):
            ins = (val,)
        elif callable(val):
            ins = tuple(arg_names(val))
        else:
            raise Untranslatable(f'graph value {val!r}')
        out.append((outs, kernel_name(val), ins))
    return out


def extract(repo: str | None) -> dict:
    """Everything the Lean side needs, as plain Python data (also used by the harness)."""
    gt, gb = _modules(repo)
    tables = {
        'dynamics': {o: graph_rules(g) for o, g in gt._GRAPH_DYNAMICS_BY_ORIGIN.items()},
        'scatterBeamline': graph_rules(gb._SCATTER_GRAPH_BEAMLINE),
        'noScatterBeamline': graph_rules(gb._NO_SCATTER_GRAPH_BEAMLINE),
    }
    factories = []  # (module, function, argument, rules)

    def public(mod):
        for n, f in sorted(vars(mod).items()):
            if n.startswith('_') or not inspect.isfunction(f) or f.__module__ != mod.__name__:
                continue
            yield n, f

    raising = []  # (module.function, argument) of calls that raise KeyError
    for n, f in public(gt):
        params = list(inspect.signature(f).parameters)
        if params != ['start']:
            raise Untranslatable(f'factory tof.{n}{inspect.signature(f)}')
        for s in START_CANDIDATES:
            try:
                g = f(start=s)
            except KeyError:
                raising.append((f'tof.{n}', s))
                continue
            factories.append(('tof', n, s, graph_rules(g)))
    for n, f in public(gb):
        params = list(inspect.signature(f).parameters)
        if params == []:
            factories.append(('beamline', n, '', graph_rules(f())))
        elif params == ['scatter']:
            for s in (True, False):
                factories.append(('beamline', n, 'true' if s else 'false', graph_rules(f(scatter=s))))
        else:
            raise Untranslatable(f'factory beamline.{n}{inspect.signature(f)}')

    all_graphs = list(tables['dynamics'].values()) + [tables['scatterBeamline'], tables['noScatterBeamline']]
    all_graphs += [r for *_, r in factories]
    names = list(BASE_NAMES)
    extra = set()
    kernels = set()
    for g in all_graphs:
        for outs, k, ins in g:
            extra.update(outs)
            extra.update(ins)
            kernels.add(k)
    extra.update(tables['dynamics'].keys())
    names += sorted(extra - set(names))
    kernels.discard('<rename>')
    kernel_list = ['<rename>', *sorted(kernels)]
    return {
        'names': names,
        'kernels': kernel_list,
        'tables': tables,
        'factories': factories,
        'raising': raising,
        'ranks': [(o, sc, rank_table(o, sc, tables, factories, names)) for o in tables['dynamics'] for sc in (True, False)],
    }


def rank_table(origin, scatter, tables, factories, names) -> list[int] | None:
    """longest-path rank in the union of every rule that can appear in a conversion graph for
    ``(origin, scatter)``; None if that union is cyclic (then Lean's `graphs_ranked` fails, as it
    should)."""
    if scatter:
        rules = list(tables['dynamics'][origin]) + tables['scatterBeamline']
        for mod, fn, arg, rs in factories:
            if fn in ('direct_inelastic', 'indirect_inelastic') and arg == 'tof':
                rules += rs
    else:
        rules = list(tables['noScatterBeamline'])
        for mod, fn, arg, rs in factories:
            if fn == 'kinematic' and arg == 'tof':
                rules += rs
    deps: dict[str, set[str]] = {}
    for outs, _, ins in rules:
        for o in outs:
            deps.setdefault(o, set()).update(ins)
    rank: dict[str, int] = {}
    state: dict[str, int] = {}

    def visit(n):
        if state.get(n) == 2:
            return rank[n]
        if state.get(n) == 1:
            raise Untranslatable('cycle')
        state[n] = 1
        r = 0
        for d in deps.get(n, ()):
            r = max(r, visit(d) + 1)
        state[n] = 2
        rank[n] = r
        return r

    try:
        return [visit(n) for n in names]
    except Untranslatable:
        return None


def _ident(s: str) -> str:
    return ''.join(ch if ch.isalnum() else '_' for ch in s)


def render(data: dict) -> str:
    names, kernels = data['names'], data['kernels']
    ncode = {n: i for i, n in enumerate(names)}
    kcode = {k: i for i, k in enumerate(kernels)}

    def nat_list(xs):
        return '[' + ', '.join(str(x) for x in xs) + ']'

    def rule(r):
        outs, k, ins = r
        return (f'⟨{nat_list(ncode[o] for o in outs)}, {kcode[k]}, {nat_list(ncode[i] for i in ins)}⟩'
                f' /- {",".join(outs)} = {k}({",".join(ins)}) -/')

    def graph(rs, indent='  '):
        if not rs:
            return '[]'
        return '[\n' + ',\n'.join(indent + '  ' + rule(r) for r in rs) + '\n' + indent + ']'

    p = [
        '/- GENERATED by harness/translate/graphs.py from src/scippneutron/conversion/graph/*.py — do not edit. -/',
        'import ScnVerif.Model.Convert',
        'namespace ScnVerif.Gen.Graphs',
        'open ScnVerif.Convert',
        '',
        '/-- coordinate names; the index is the code -/',
        'def nameStrs : List String := [' + ', '.join(lean_str(n) for n in names) + ']',
        '/-- kernels (qualified function names); the index is the code; 0 is the rename pseudo kernel -/',
        'def kernelStrs : List String := [' + ', '.join(lean_str(k) for k in kernels) + ']',
        '',
    ]
    for k in kernels[1:]:
        p.append(f'def k_{_ident(k)} : Kernel := {kcode[k]}')
    p.append('')
    p.append('/-! names beyond `ScnVerif.Convert.baseNames` -/')
    for n in names[len(BASE_NAMES):]:
        p.append(f'def n_{_ident(n)} : Name := {ncode[n]}')
    p.append('')
    p.append('/-- `_GRAPH_DYNAMICS_BY_ORIGIN` -/')
    p.append('def dynamics : List (Name × Graph) := [')
    p.append(',\n'.join(f'  ({ncode[o]}, {graph(rs)}) /- {o} -/' for o, rs in data['tables']['dynamics'].items()))
    p.append(']')
    p.append('/-- `_SCATTER_GRAPH_BEAMLINE` -/')
    p.append('def scatterBeamline : Graph := ' + graph(data['tables']['scatterBeamline'], ''))
    p.append('/-- `_NO_SCATTER_GRAPH_BEAMLINE` -/')
    p.append('def noScatterBeamline : Graph := ' + graph(data['tables']['noScatterBeamline'], ''))
    p.append('')
    fnames = []
    for mod, fn, arg, rs in data['factories']:
        ident = f'f_{mod}_{_ident(fn)}' + (f'__{_ident(arg)}' if arg else '')
        fnames.append((ident, mod, fn, arg))
        p.append(f'/-- `graph.{mod}.{fn}({arg})` -/')
        p.append(f'def {ident} : Graph := ' + graph(rs, ''))
    p.append('')
    p.append('/-- result of every public graph factory: (module.function, argument name code or flag, graph) -/')
    p.append('def factories : List (String × String × Graph) := [')
    p.append(',\n'.join(f'  ({lean_str(mod + "." + fn)}, {lean_str(arg)}, {ident})' for ident, mod, fn, arg in fnames))
    p.append(']')
    p.append('')

    def inel(fn):
        rows = [(arg, ident) for ident, mod, f, arg in fnames if mod == 'tof' and f == fn]
        return '[' + ', '.join(f'({ncode[a]}, {i})' for a, i in rows) + ']'

    p.append('/-- results of the factories the model computes: (`factoryModel` id, argument code, graph or none = KeyError) -/')
    p.append('def factoryResults : List (Nat × Nat × Option Graph) := [')
    rows = []
    for ident, mod, fn, arg in fnames:
        q = f'{mod}.{fn}'
        if q in MODELLED:
            a = {'': 0, 'true': 1, 'false': 0}.get(arg, ncode.get(arg, 0))
            rows.append(f'  ({MODELLED.index(q)}, {a}, some {ident})')
    for q, arg in data['raising']:
        if q in MODELLED:
            rows.append(f'  ({MODELLED.index(q)}, {ncode[arg]}, none)')
    p.append(',\n'.join(rows))
    p.append(']')
    p.append('')
    p.append('/-- the inline table of `direct_inelastic(start)` / `indirect_inelastic(start)` -/')
    p.append('def directInelastic : List (Name × Graph) := ' + inel('direct_inelastic'))
    p.append('def indirectInelastic : List (Name × Graph) := ' + inel('indirect_inelastic'))
    p.append('')
    p.append('/-- rank certificates per (origin, scatter) (index = name code); re-checked by `graphs_ranked` -/')
    p.append('def ranks : List (Name × Bool × List Nat) := [')
    p.append(',\n'.join(
        f'  ({ncode[o]}, {"true" if sc else "false"}, {nat_list(r if r is not None else [0] * len(names))}) /- {o} -/'
        for o, sc, r in data['ranks']))
    p.append(']')
    p.append('')
    p.append('def tables : Tables := ⟨dynamics, scatterBeamline, noScatterBeamline, directInelastic, indirectInelastic⟩')
    p.append('')
    p.append('end ScnVerif.Gen.Graphs')
    return '\n'.join(p) + '\n'


def translate(repo: str) -> list[str]:
    path = os.path.join(GEN_DIR, 'Graphs.lean')
    return [path] if write_if_changed(path, render(extract(repo))) else []


if __name__ == '__main__':
    print(translate(sys.argv[1] if len(sys.argv) > 1 else '/repo'))
