"""Translator: SQW tables in the source -> lean/ScnVerif/Gen/SqwTables.lean.

Extracted with ``ast`` (nothing is imported or executed):

* ``_build.py``: the ``order`` tuple of ``_to_canonical_block_order``; ``_DEFAULT_PIX_ROWS``;
  ``_DEFAULT_PIX_ROW_UNITS``.
* ``_models.py``: for every ``Sqw*._serialize_to_dict`` the unit each IR field is converted to
  before it is written (``_variable_to_float_array(x, unit)``, ``_serialize_multi_unit_array(x, units)``,
  ``_angle_value(x)``, ``x.to(unit=...)``); ``None`` = written as supplied, no conversion.
* ``_sqw.py``: for every ``_parse_*`` function the unit label the reader attaches to each IR field
  (``unit=`` keyword of ``sc.scalar/array/vector``, ``get_vec``, ``_parse_?d_multi_unit_array``);
  ``dimensionless`` when a ``sc.vector/scalar/array`` call has no ``unit=``; ``None`` for ``unit=None`` or
  plain Python values.

A table entry is ``(serial_name of the model class, IR field name[#index], unit)``.
Strings become UTF-8 byte lists (cheap for the Lean kernel).
"""
from __future__ import annotations

import ast
import os

from .util import GEN_DIR, write_if_changed


def lean_bytes(s: str) -> str:
    return '[' + ','.join(str(b) for b in s.encode('utf-8')) + ']'


def _parse(repo: str, name: str) -> ast.Module:
    path = os.path.join(repo, 'src', 'scippneutron', 'io', 'sqw', name)
    with open(path, encoding='utf-8') as f:
        return ast.parse(f.read())


def _eval_const(node, env=None):
    """Evaluate literal expressions incl. list * int and list + list, and names bound in env."""
    env = env or {}
    if isinstance(node, ast.Constant):
        return node.value
    if isinstance(node, (ast.Tuple, ast.List)):
        return [_eval_const(e, env) for e in node.elts]
    if isinstance(node, ast.BinOp) and isinstance(node.op, ast.Mult):
        return _eval_const(node.left, env) * _eval_const(node.right, env)
    if isinstance(node, ast.BinOp) and isinstance(node.op, ast.Add):
        return _eval_const(node.left, env) + _eval_const(node.right, env)
    if isinstance(node, ast.Name) and node.id in env:
        return env[node.id]
    raise ValueError(f'not a literal: {ast.dump(node)[:80]}')


def build_tables(repo: str):
    mod = _parse(repo, '_build.py')
    rows = units = order = None
    for node in ast.walk(mod):
        if isinstance(node, ast.Assign) and len(node.targets) == 1 and isinstance(node.targets[0], ast.Name):
            t = node.targets[0].id
            if t == '_DEFAULT_PIX_ROWS':
                rows = _eval_const(node.value)
            elif t == '_DEFAULT_PIX_ROW_UNITS':
                units = _eval_const(node.value)
        if isinstance(node, ast.FunctionDef) and node.name == '_to_canonical_block_order':
            for sub in ast.walk(node):
                if isinstance(sub, ast.Assign) and isinstance(sub.targets[0], ast.Name) and sub.targets[0].id == 'order':
                    order = [tuple(x) for x in _eval_const(sub.value)]
    if rows is None or units is None or order is None:
        raise ValueError('could not find the pixel row tables / canonical block order in _build.py')
    return order, rows, units


def _kw(call: ast.Call, name: str):
    for k in call.keywords:
        if k.arg == name:
            return k.value
    return None


def _func_name(call: ast.Call) -> str:
    f = call.func
    if isinstance(f, ast.Name):
        return f.id
    if isinstance(f, ast.Attribute):
        return f.attr
    return ''


def _local_assignments(fn: ast.FunctionDef):
    out: dict[str, list[ast.expr]] = {}
    for node in ast.walk(fn):
        if isinstance(node, ast.Assign):
            for t in node.targets:
                if isinstance(t, ast.Name):
                    out.setdefault(t.id, []).append(node.value)
    return out


def _serial_names(mod: ast.Module) -> dict[str, str]:
    out = {}
    for node in mod.body:
        if isinstance(node, ast.ClassDef):
            for st in node.body:
                if isinstance(st, ast.AnnAssign) and isinstance(st.target, ast.Name) and st.target.id == 'serial_name':
                    if isinstance(st.value, ast.Constant):
                        out[node.name] = st.value.value
    return out


def _angle_unit(mod: ast.Module) -> str:
    for node in mod.body:
        if isinstance(node, ast.FunctionDef) and node.name == '_angle_value':
            for sub in ast.walk(node):
                if isinstance(sub, ast.Call) and _func_name(sub) == 'to':
                    u = _kw(sub, 'unit')
                    if isinstance(u, ast.Constant):
                        return u.value
    raise ValueError('_angle_value: unit not found')


def writer_units(repo: str):
    """[(class key, field, unit|None)] and {class: {field: literal bool}} for Logical literals"""
    mod = _parse(repo, '_models.py')
    serial = _serial_names(mod)
    angle = _angle_unit(mod)
    table = []
    logicals: dict[str, dict[str, bool]] = {}
    for cls in mod.body:
        if not isinstance(cls, ast.ClassDef):
            continue
        for fn in cls.body:
            if not (isinstance(fn, ast.FunctionDef) and fn.name == '_serialize_to_dict'):
                continue
            # the single experiment shares its serial name with the multi-experiment wrapper
            key = serial.get(cls.name, cls.name)
            if cls.name == 'SqwIXExperiment':
                key = 'IX_experiment/array_dat'
            assigns = _local_assignments(fn)
            env = {}
            for name, vals in assigns.items():
                try:
                    env[name] = _eval_const(vals[0])
                except ValueError:
                    pass

            def unit_of(expr, depth=0) -> list:
                """list of units (one per index for multi-unit arrays), [None] if unconverted"""
                if depth > 4:
                    return [None]
                if isinstance(expr, ast.Name) and expr.id in assigns:
                    found = []
                    for v in assigns[expr.id]:
                        u = unit_of(v, depth + 1)
                        if u != [None]:
                            found.append(u)
                    if not found:
                        return [None]
                    if any(f != found[0] for f in found):
                        raise ValueError(f'{cls.name}: conflicting units for local {expr.id}')
                    return found[0]
                if isinstance(expr, ast.Call):
                    fname = _func_name(expr)
                    if fname == '_variable_to_float_array':
                        return [_eval_const(expr.args[1], env)]
                    if fname == '_serialize_multi_unit_array':
                        return list(_eval_const(expr.args[1], env))
                    if fname == '_angle_value':
                        return [angle]
                    if fname == 'to':
                        u = _kw(expr, 'unit')
                        if u is not None:
                            return [_eval_const(u, env)]
                    # look inside wrappers: ir.F64(x), ir.Array(x.values, ...), x.broadcast(...), float(x)
                    for a in list(expr.args) + ([expr.func.value] if isinstance(expr.func, ast.Attribute) else []):
                        u = unit_of(a, depth + 1)
                        if u != [None]:
                            return u
                    return [None]
                if isinstance(expr, ast.Attribute):
                    return unit_of(expr.value, depth + 1)
                return [None]

            for node in ast.walk(fn):
                if isinstance(node, ast.Return) and isinstance(node.value, ast.Dict):
                    for k, v in zip(node.value.keys, node.value.values):
                        if not isinstance(k, ast.Constant):
                            continue
                        try:
                            us = unit_of(v)
                        except ValueError:
                            # a construct this translator does not know: never skipped silently — the entry gets a
                            # unit string without a dimension, so the table theorems fail and the oracle is consulted
                            us = ['?untranslated']
                        if len(us) == 1:
                            table.append((key, k.value, us[0]))
                        else:
                            for i, u in enumerate(us):
                                table.append((key, f'{k.value}#{i}', u))
                        if (isinstance(v, ast.Call) and _func_name(v) == 'Logical' and v.args
                                and isinstance(v.args[0], ast.Constant)):
                            logicals.setdefault(key, {})[k.value] = bool(v.args[0].value)
    return table, logicals


_FIELD_GETTERS = {'_get_struct_field', '_get_scalar_struct_field', 'g', 'get_vec'}


def reader_units(repo: str, writer_logicals):
    mod = _parse(repo, '_sqw.py')
    models = _serial_names(_parse(repo, '_models.py'))
    funcs = {n.name: n for n in mod.body if isinstance(n, ast.FunctionDef)}
    # a `units` list defined in any parser (handed from the projection parser to the axes parser)
    shared_env = {}
    for fn in funcs.values():
        for name, vals in _local_assignments(fn).items():
            if name == 'units':
                try:
                    shared_env['units'] = _eval_const(vals[0])
                except ValueError:
                    pass
    table = []
    for fn in funcs.values():
        if not fn.name.startswith('_parse_'):
            continue
        ctor = None
        for node in ast.walk(fn):
            if isinstance(node, ast.Call) and isinstance(node.func, ast.Name) and node.func.id in models and node.keywords:
                ctor = node
                break
        if ctor is None:
            continue
        key = models[ctor.func.id]
        if ctor.func.id == 'SqwIXExperiment':
            key = 'IX_experiment/array_dat'
        assigns = _local_assignments(fn)
        env = dict(shared_env)
        for name, vals in assigns.items():
            try:
                env[name] = _eval_const(vals[0])
            except ValueError:
                pass
        # nested helper `get_vec(name, unit)` forwards its unit argument
        def resolve_unit(node):
            """-> list of unit strings / None"""
            if isinstance(node, ast.Constant):
                return [node.value]
            if isinstance(node, ast.Subscript):
                base = _eval_const(node.value, env)
                return [base[_eval_const(node.slice, env)]]
            if isinstance(node, ast.Name):
                if node.id in env:
                    v = env[node.id]
                    return list(v) if isinstance(v, list) else [v]
                for v in assigns.get(node.id, []):
                    # sc.Unit("deg" if g("angular_is_degree") else "rad")
                    if isinstance(v, ast.Call) and v.args and isinstance(v.args[0], ast.IfExp):
                        ife = v.args[0]
                        flag = None
                        for sub in ast.walk(ife.test):
                            if isinstance(sub, ast.Constant) and isinstance(sub.value, str):
                                flag = sub.value
                        written = writer_logicals.get(key, {}).get(flag)
                        if written is None:
                            raise ValueError(f'{fn.name}: flag {flag} is not a literal in the writer')
                        return [_eval_const(ife.body if written else ife.orelse, env)]
            raise ValueError(f'{fn.name}: cannot resolve unit expression {ast.dump(node)[:80]}')

        def field_of(expr):
            for sub in ast.walk(expr):
                if isinstance(sub, ast.Call) and _func_name(sub) in _FIELD_GETTERS:
                    for a in sub.args:
                        if isinstance(a, ast.Constant) and isinstance(a.value, str):
                            return a.value
            return None

        def label_of(expr, depth=0):
            """list of labels, or None when no field is read"""
            if depth > 4:
                return [None]
            if isinstance(expr, ast.Name) and expr.id in assigns and expr.id not in env:
                found = [label_of(v, depth + 1) for v in assigns[expr.id]]
                found = [f for f in found if f is not None]
                labelled = [f for f in found if f != [None]]
                if not labelled:
                    return [None]
                if any(f != labelled[0] for f in labelled):
                    raise ValueError(f'{fn.name}: conflicting labels for local {expr.id}')
                return labelled[0]
            if isinstance(expr, ast.Call):
                fname = _func_name(expr)
                if fname in ('_parse_1d_multi_unit_array', '_parse_2d_multi_unit_array'):
                    return resolve_unit(expr.args[-1])
                if fname in ('scalar', 'array', 'vector', 'get_vec'):
                    u = _kw(expr, 'unit')
                    if u is None:
                        return ['dimensionless']
                    return resolve_unit(u)
            return [None]

        def field_in_locals(expr, depth=0):
            f = field_of(expr)
            if f is not None or depth > 3:
                return f
            for sub in ast.walk(expr):
                if isinstance(sub, ast.Name) and sub.id in assigns:
                    for v in assigns[sub.id]:
                        f = field_in_locals(v, depth + 1)
                        if f is not None:
                            return f
            return None

        for kw in ctor.keywords:
            field = field_in_locals(kw.value)
            if field is None:
                continue
            try:
                labels = label_of(kw.value)
            except ValueError:
                labels = ['?untranslated']
            if len(labels) == 1:
                table.append((key, field, labels[0]))
            else:
                for i, u in enumerate(labels):
                    table.append((key, f'{field}#{i}', u))
    parsers = []
    for node in mod.body:
        if isinstance(node, ast.Assign) and isinstance(node.targets[0], ast.Name) and node.targets[0].id == '_BLOCK_PARSERS':
            for k in node.value.keys:
                a = k.elts[0]
                if isinstance(a, ast.Constant):
                    parsers.append(a.value)
                elif isinstance(a, ast.Attribute) and isinstance(a.value, ast.Name):
                    parsers.append(models.get(a.value.id, a.value.id))
    return table, parsers


def pixel_conversions(repo: str) -> dict:
    """how `_PixWrap.write` and `_make_pix_metadata` convert a row to its stored unit:
    'to_unit' (scipp.to_unit on the row in its own dtype) or 'to_float64' (x.to(unit=…, dtype='float64'))"""
    path = os.path.join(repo, 'src', 'scippneutron', 'io', 'sqw', '_build.py')
    with open(path, encoding='utf-8') as f:
        src = f.read()
    mod = ast.parse(src)
    out = {}
    for node in ast.walk(mod):
        if isinstance(node, ast.FunctionDef) and node.name in ('write', '_make_pix_metadata'):
            seg = ast.get_source_segment(src, node) or ''
            if node.name == 'write' and 'row_data' not in seg:
                continue
            key = 'pixels' if node.name == 'write' else 'range'
            calls = {_func_name(c) for c in ast.walk(node) if isinstance(c, ast.Call)}
            if 'to_unit' in calls:
                out[key] = 'to_unit'
            elif 'to' in calls and 'float64' in seg:
                out[key] = 'to_float64'
            else:
                out[key] = 'unknown'
    return out


def tables(repo: str):
    order, rows, units = build_tables(repo)
    wt, logicals = writer_units(repo)
    rt, parsers = reader_units(repo, logicals)
    return {'order': order, 'rows': rows, 'row_units': units, 'writer': wt, 'reader': rt, 'parsers': parsers}


def _opt(u):
    return 'none' if u is None else f'some {lean_bytes(u)} /-{u}-/'


def render(repo: str) -> str:
    t = tables(repo)
    parts = [
        '/- GENERATED by harness/translate/sqw.py from src/scippneutron/io/sqw/{_build,_models,_sqw}.py — do not edit. -/',
        'import ScnVerif.Model.Sqw.Units',
        'namespace ScnVerif.Gen.SqwTables',
        'open ScnVerif.Sqw',
        '',
        '/-- `_to_canonical_block_order.order` -/',
        'def blockOrder : List (Bytes × Bytes) := [',
        ',\n'.join(f'  ({lean_bytes(a)}, {lean_bytes(b)}) /-{a or "·"},{b}-/' for a, b in t['order']),
        ']',
        '',
        '/-- `_DEFAULT_PIX_ROWS` zipped with `_DEFAULT_PIX_ROW_UNITS` -/',
        'def pixRows : List (Bytes × Option Bytes) := [',
        ',\n'.join(f'  ({lean_bytes(r)} /-{r}-/, {_opt(u)})' for r, u in zip(t['rows'], t['row_units'], strict=True)),
        ']',
        '',
        '/-- unit every IR field is converted to by the writer (`none`: written as supplied) -/',
        'def writerUnits : List UnitEntry := [',
        ',\n'.join(f'  ⟨{lean_bytes(c)} /-{c}-/, {lean_bytes(f)} /-{f}-/, {_opt(u)}⟩' for c, f, u in t['writer']),
        ']',
        '',
        '/-- unit label the reader attaches to every IR field it returns (`none`: no label) -/',
        'def readerUnits : List UnitEntry := [',
        ',\n'.join(f'  ⟨{lean_bytes(c)} /-{c}-/, {lean_bytes(f)} /-{f}-/, {_opt(u)}⟩' for c, f, u in t['reader']),
        ']',
        '',
        '/-- serial names with a registered block parser (`_BLOCK_PARSERS`) -/',
        'def blockParsers : List Bytes := [' + ', '.join(f'{lean_bytes(p)} /-{p}-/' for p in t['parsers']) + ']',
        '',
        'end ScnVerif.Gen.SqwTables',
    ]
    return '\n'.join(parts) + '\n'


def translate(repo: str) -> list[str]:
    path = os.path.join(GEN_DIR, 'SqwTables.lean')
    return [path] if write_if_changed(path, render(repo)) else []


if __name__ == '__main__':
    import pprint
    import sys

    repo = sys.argv[1] if len(sys.argv) > 1 else '/repo'
    pprint.pprint(tables(repo), width=150)
    print(translate(repo))
