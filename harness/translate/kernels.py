"""Translator: bodies of (mostly) straight-line scipp functions -> heap IR in lean/ScnVerif/Gen/Kernels.lean (C09 a).

Every function listed in ``TARGETS`` is parsed with ``ast`` and mapped onto the four instructions of
``Model/Heap.lean`` (``fresh``, ``view``, ``conv``, ``write``).  The classification of scipp / numpy
operations into fresh / view / in-place is the table below (trusted; exercised by the dynamic tie of
``harness/props/c09.py``).  A function that uses a construct the translator does not know is NOT skipped
silently: it is returned in the ``untranslated`` list with the reason, listed in the generated file
and in the evidence as "dynamic only".

Rules (conservative = more aliasing, more writes):
* parameters are variables ``0..n-1`` (``self`` included); every other name is a local variable;
* arithmetic, comparisons, literals, pure library calls, ``.copy()``, ``.to(copy=True)`` → ``fresh``;
* attribute access, subscripts/slices, ``transpose``/``broadcast``/``fold``/``flatten``, ``bins.constituents``,
  ``.values``, tuple/list/dict displays, conditional expressions, results of calls to other translated
  functions → ``view`` (may alias any operand);
* ``x.to(unit=…, dtype=…, copy=False)``, ``x.astype(…, copy=False)``, ``sc.to_unit(x, …, copy=False)`` → ``conv``
  with a new configuration bit (aliases ``x`` iff unit/dtype already match);
* ``v op= e``, ``f(…, out=v)``, ``v[...] = e``, mutating container methods → ``write v``;
* ``x.copy(deep=False)``, ``dict(x)``, ``dict(x.items())``, ``list(x)`` → a new local container whose fields view ``x``;
  assigning an attribute of a local container rebinds that field, assigning an attribute of anything else is
  a ``write``; in-place arithmetic on a container with a ``data`` field writes that field only;
* ``if`` forks the path (every path is a separate program, all are checked); ``for`` bodies are unrolled
  twice; a call to another function of the package uses that function's own summary (the set of parameters
  it may write, re-checked in Lean) and its result may alias any argument.
"""
from __future__ import annotations

import ast
import os

from .util import GEN_DIR, write_if_changed

# (file, qualified name, public?)
TARGETS = [
    ('_utils/__init__.py', 'elem_unit', False),
    ('_utils/__init__.py', 'elem_dtype', False),
    ('_utils/__init__.py', 'float_dtype', False),
    ('_utils/__init__.py', 'as_float_type', False),
    ('conversion/beamline.py', 'L1', True),
    ('conversion/beamline.py', 'L2', True),
    ('conversion/beamline.py', 'straight_incident_beam', True),
    ('conversion/beamline.py', 'straight_scattered_beam', True),
    ('conversion/beamline.py', 'total_beam_length', True),
    ('conversion/beamline.py', 'total_straight_beam_length_no_scatter', True),
    ('conversion/beamline.py', 'two_theta', True),
    ('conversion/beamline.py', 'beam_aligned_unit_vectors', True),
    ('conversion/beamline.py', '_drop_due_to_gravity', False),
    ('conversion/beamline.py', '_scattering_angles_with_gravity_generic', False),
    ('conversion/beamline.py', '_scattering_angles_with_gravity_orthogonal_coords', False),
    ('conversion/beamline.py', 'scattering_angles_with_gravity', True),
    ('conversion/beamline.py', 'scattering_angle_in_yz_plane', True),
    ('conversion/tof.py', '_common_dtype', False),
    ('conversion/tof.py', 'wavelength_from_tof', True),
    ('conversion/tof.py', 'dspacing_from_tof', True),
    ('conversion/tof.py', '_energy_constant', False),
    ('conversion/tof.py', 'energy_from_tof', True),
    ('conversion/tof.py', '_energy_transfer_t0', False),
    ('conversion/tof.py', 'energy_transfer_direct_from_tof', True),
    ('conversion/tof.py', 'energy_transfer_indirect_from_tof', True),
    ('conversion/tof.py', 'energy_from_wavelength', True),
    ('conversion/tof.py', 'wavelength_from_energy', True),
    ('conversion/tof.py', '_wavelength_Q_conversions', False),
    ('conversion/tof.py', 'Q_from_wavelength', True),
    ('conversion/tof.py', 'wavelength_from_Q', True),
    ('conversion/tof.py', 'Q_elements_from_wavelength', True),
    ('conversion/tof.py', 'dspacing_from_wavelength', True),
    ('conversion/tof.py', 'dspacing_from_energy', True),
    ('conversion/tof.py', 'Q_vec_from_Q_elements', True),
    ('conversion/tof.py', 'ub_matrix_from_u_and_b', True),
    ('conversion/tof.py', 'hkl_vec_from_Q_vec', True),
    ('conversion/tof.py', 'hkl_elements_from_hkl_vec', True),
    ('conversion/tof.py', 'time_at_sample_from_tof', True),
    ('peaks/model.py', '_gaussian', False),
    ('peaks/model.py', '_lorentzian', False),
    ('peaks/model.py', '_guess_from_peak', False),
    ('peaks/model.py', 'GaussianModel._call', True),
    ('peaks/model.py', 'LorentzianModel._call', True),
    ('peaks/model.py', 'PolynomialModel._call', True),
    ('peaks/model.py', 'PseudoVoigtModel._call', True),
    ('peaks/model.py', 'CompositeModel._call', True),
    ('peaks/model.py', 'Model.with_prefix', True),
    ('peaks/_remove_peaks.py', 'remove_peaks', True),
    ('peaks/_fit_peaks.py', '_chi_square', False),
    ('peaks/_fit_peaks.py', '_akaike_information_criterion', False),
    ('peaks/_fit_peaks.py', '_clip_to_data_range', False),
    ('peaks/_fit_peaks.py', '_separate_from_neighbors_in_place', False),
    ('peaks/_fit_peaks.py', '_fit_windows', False),
    ('tof/chopper_cascade.py', 'wavelength_to_inverse_velocity', True),
    ('tof/chopper_cascade.py', 'propagate_times', True),
    ('tof/chopper_cascade.py', 'Subframe.propagate_by', True),
    ('tof/chopper_cascade.py', '_chop', False),
    ('absorption/cylinder.py', 'Cylinder.quadrature', True),
    ('absorption/base.py', '_integrate_transmission_fraction', False),
    ('io/sqw/_build.py', '_split_pix_rows', False),
]

MODULE_NAMES = {'sc', 'np', 'math', 'const', 'scipp', 'numpy', 'constants', 'itertools', 'dataclasses', 'copy', 'warnings', 'enum'}
PURE_BUILTINS = {'max', 'min', 'len', 'int', 'float', 'range', 'set', 'frozenset', 'abs', 'isinstance', 'sum', 'str', 'bool',
                 'round', 'any', 'all', 'repr', 'type', 'hasattr', 'ValueError', 'TypeError', 'RuntimeError', 'NotImplementedError',
                 'IndexError', 'KeyError', 'print', 'id', 'issubclass', 'pow', 'divmod'}
VIEW_BUILTINS = {'zip', 'enumerate', 'sorted', 'reversed', 'iter', 'next', 'getattr', 'tuple', 'map', 'filter'}
SHALLOW_BUILTINS = {'dict', 'list'}
# attributes that are metadata / immutable values, not buffers
META_ATTRS = {'unit', 'dtype', 'dims', 'dim', 'sizes', 'shape', 'ndim', 'degree', 'prefix', 'size', 'name', '_prefix',
              'frequency', 'phase', 'args', 'bins' if False else '__none__'}
VIEW_METHODS = {'transpose', 'broadcast', 'fold', 'flatten', 'squeeze', 'rename_dims', 'rename', 'items', 'keys', 'values', 'get',
                'drop_coords', 'drop_masks', 'assign_coords', 'assign_masks', 'constituents', 'with_prefix' if False else '__none__'}
MUTATING_METHODS = {'pop', 'append', 'update', 'clear', 'setdefault', 'extend', 'remove', 'insert', 'sort', 'reverse', 'popitem',
                    'add', 'discard', 'fill', 'resize', 'put', 'setflags'}
PURE_METHODS = {'mean', 'max', 'min', 'sum', 'nansum', 'nanmean', 'all', 'any', 'issubset', 'issuperset', 'union', 'intersection',
                'format', 'startswith', 'endswith', 'join', 'split', 'copy', 'index', 'count', 'is_edges', 'to_dict', 'lower',
                'upper', 'strip', 'isdisjoint', 'difference', 'item', 'tolist', 'astype_copy', 'norm', 'inverse', 'underlying_size'}


class Unsupported(Exception):
    pass


class FnInfo:
    def __init__(self, file, qual, public, node, cls):
        self.file, self.qual, self.public, self.node, self.cls = file, qual, public, node, cls
        a = node.args
        self.params = [p.arg for p in a.posonlyargs + a.args] + [p.arg for p in a.kwonlyargs]
        if a.vararg or a.kwarg:
            self.varargs = True
        else:
            self.varargs = False
        self.paths = None        # list of instruction lists
        self.bits = 0
        self.allowed = None      # sorted list of parameter indices that may be written
        self.ret_alias = None    # sorted list of parameter indices the return value may alias
        self.rets = None         # per path: returned variable or None
        self.error = None


def written_args(n, prog, c, ret=None):
    """Python mirror of `Heap.writtenArgs` / `Heap.returnAliases` (the Lean side re-checks the result)"""
    env = {j: {j} for j in range(n)}
    w = set()
    for ins in prog:
        op = ins[0]
        if op == 'fresh':
            env[ins[1]] = set()
        elif op == 'view':
            s = set()
            for x in ins[2]:
                s |= env.get(x, set())
            env[ins[1]] = s
        elif op == 'conv':
            env[ins[1]] = set(env.get(ins[2], set())) if (c >> ins[3]) & 1 else set()
        elif op == 'write':
            w |= env.get(ins[1], set())
    if ret is not None:
        return w, env.get(ret, set())
    return w


class Translator:
    def __init__(self, repo):
        self.repo = repo
        self.base = os.path.join(repo, 'src', 'scippneutron')
        self.trees = {}
        self.infos: dict[tuple[str, str], FnInfo] = {}
        self.in_progress = set()

    def tree(self, file):
        if file not in self.trees:
            with open(os.path.join(self.base, file), encoding='utf-8') as f:
                self.trees[file] = ast.parse(f.read())
        return self.trees[file]

    def find(self, file, qual):
        parts = qual.split('.')
        body = self.tree(file).body
        cls = None
        for i, part in enumerate(parts):
            found = None
            for node in body:
                if isinstance(node, ast.FunctionDef | ast.ClassDef) and node.name == part:
                    found = node
            if found is None:
                return None, None
            if isinstance(found, ast.ClassDef):
                cls = found.name
                body = found.body
            else:
                return found, cls
        return None, None

    def info(self, file, qual, public=False):
        key = (file, qual)
        if key in self.infos:
            return self.infos[key]
        node, cls = self.find(file, qual)
        if node is None:
            fi = FnInfo(file, qual, public, ast.parse('def f(): pass').body[0], None)
            fi.error = 'function not found'
            fi.paths = []
            self.infos[key] = fi
            return fi
        fi = FnInfo(file, qual, public, node, cls)
        self.infos[key] = fi
        if key in self.in_progress:
            fi.error = 'recursive'
            return fi
        self.in_progress.add(key)
        try:
            if fi.varargs:
                raise Unsupported('*args/**kwargs parameters')
            b = Body(self, fi)
            b.run()
            fi.paths = [q.ins for q in b.finished]
            fi.rets = [q.ret for q in b.finished]
            fi.bits = b.nbits
            allowed, ret_alias = set(), set()
            for prog, ret in zip(fi.paths, fi.rets):
                for c in range(2 ** fi.bits):
                    w, r = written_args(len(fi.params), prog, c, ret if ret is not None else -1)
                    allowed |= w
                    ret_alias |= r
            fi.allowed = sorted(allowed)
            fi.ret_alias = sorted(ret_alias)
        except Unsupported as e:
            fi.error = str(e)
            fi.paths = []
            fi.allowed = None
        finally:
            self.in_progress.discard(key)
        return fi

    def resolve_callee(self, file, name):
        """a module-level function of the same file, or one imported from the package"""
        node, _ = self.find(file, name)
        if node is not None:
            return file, name
        for st in self.tree(file).body:
            if isinstance(st, ast.ImportFrom) and st.module and any(a.asname == name or (a.asname is None and a.name == name) for a in st.names):
                orig = next(a.name for a in st.names if (a.asname or a.name) == name)
                mod = st.module.replace('.', '/')
                here = os.path.dirname(file)
                up = st.level
                d = here
                for _ in range(max(up - 1, 0)):
                    d = os.path.dirname(d)
                cand = os.path.normpath(os.path.join(d if up else '', mod + '.py'))
                if os.path.exists(os.path.join(self.base, cand)):
                    n2, _ = self.find(cand, orig)
                    if n2 is not None:
                        return cand, orig
                cand2 = os.path.normpath(os.path.join(d if up else '', mod, '__init__.py'))
                if os.path.exists(os.path.join(self.base, cand2)):
                    n2, _ = self.find(cand2, orig)
                    if n2 is not None:
                        return cand2, orig
        return None


class Path:
    def __init__(self, nparams):
        self.ins = []
        self.names = {}
        self.fields = {}     # var -> {'data': var, '*': var}
        self.next = nparams
        self.done = False
        self.skip = False
        self.ret = None

    def clone(self):
        p = Path(0)
        p.ins = list(self.ins)
        p.names = dict(self.names)
        p.fields = {k: dict(v) for k, v in self.fields.items()}
        p.next = self.next
        p.done = self.done
        p.skip = self.skip
        p.ret = self.ret
        return p


class Body:
    MAX_PATHS = 64

    def __init__(self, tr: Translator, fi: FnInfo):
        self.tr, self.fi = tr, fi
        self.nbits = 0
        self.site_bits = {}
        self.finished = []

    # ---- driving ------------------------------------------------------------------------------------
    def run(self):
        p = Path(len(self.fi.params))
        for i, name in enumerate(self.fi.params):
            p.names[name] = i
        paths = self.block(self.fi.node.body, [p])
        self.finished = list(paths)

    def block(self, stmts, paths):
        for st in stmts:
            nxt = []
            for p in paths:
                if p.done or p.skip:
                    nxt.append(p)
                    continue
                nxt += self.stmt(st, p)
            paths = nxt
            if len(paths) > self.MAX_PATHS:
                raise Unsupported('too many paths')
        return paths

    # ---- helpers ------------------------------------------------------------------------------------
    def new(self, p):
        v = p.next
        p.next += 1
        return v

    def fresh(self, p):
        v = self.new(p)
        p.ins.append(('fresh', v))
        return v

    def view(self, p, srcs):
        srcs = [s for s in dict.fromkeys(srcs)]
        v = self.new(p)
        if srcs:
            p.ins.append(('view', v, srcs))
        else:
            p.ins.append(('fresh', v))
        return v

    def expand(self, p, v):
        """all buffers reachable from variable v (its fields if it is a local container)"""
        if v in p.fields:
            return [v] + [x for f in p.fields[v].values() for x in self.expand(p, f)]
        return [v]

    def write(self, p, v):
        if v in p.fields:
            self.write(p, p.fields[v].get('data', p.fields[v]['*']))
        else:
            p.ins.append(('write', v))

    def bit(self, node):
        key = (node.lineno, node.col_offset)
        if key not in self.site_bits:
            self.site_bits[key] = self.nbits
            self.nbits += 1
        return self.site_bits[key]

    # ---- statements ---------------------------------------------------------------------------------
    def stmt(self, st, p):
        if isinstance(st, ast.Expr):
            if isinstance(st.value, ast.Constant):
                return [p]
            self.expr(st.value, p)
            return [p]
        if isinstance(st, ast.Pass | ast.Import | ast.ImportFrom | ast.Assert | ast.Global | ast.Nonlocal):
            return [p]
        if isinstance(st, ast.Return):
            if st.value is not None:
                v = self.expr(st.value, p)
                p.ret = self.view(p, self.expand(p, v))
            p.done = True
            return [p]
        if isinstance(st, ast.Raise):
            p.done = True
            return [p]
        if isinstance(st, ast.Continue | ast.Break):
            p.skip = True
            return [p]
        if isinstance(st, ast.Assign):
            v = self.expr(st.value, p)
            for t in st.targets:
                self.assign(t, v, p)
            return [p]
        if isinstance(st, ast.AnnAssign):
            if st.value is not None:
                self.assign(st.target, self.expr(st.value, p), p)
            return [p]
        if isinstance(st, ast.AugAssign):
            self.expr(st.value, p)
            t = st.target
            if isinstance(t, ast.Name):
                if t.id not in p.names:
                    raise Unsupported(f'augmented assignment to unknown name {t.id}')
                self.write(p, p.names[t.id])
            else:
                self.write(p, self.expr(t, p))
            return [p]
        if isinstance(st, ast.Delete):
            for t in st.targets:
                if isinstance(t, ast.Name):
                    p.names.pop(t.id, None)
                else:
                    self.write(p, self.expr(t.value if isinstance(t, ast.Subscript | ast.Attribute) else t, p))
            return [p]
        if isinstance(st, ast.If):
            self.expr(st.test, p)
            a = p
            b = p.clone()
            ra = self.block(st.body, [a])
            rb = self.block(st.orelse, [b]) if st.orelse else [b]
            return ra + rb
        if isinstance(st, ast.For):
            it = self.expr(st.iter, p)
            paths = [p]
            for _ in range(2):
                for q in paths:
                    if not q.done:
                        self.assign(st.target, self.view(q, self.expand(q, it)), q)
                paths = self.block(st.body, paths)
                for q in paths:
                    q.skip = False
                if len(paths) > self.MAX_PATHS:
                    raise Unsupported('too many paths')
            if st.orelse:
                paths = self.block(st.orelse, paths)
            return paths
        if isinstance(st, ast.Match):
            self.expr(st.subject, p)
            out = []
            for case in st.cases:
                q = p.clone()
                out += self.block(case.body, [q])
            return out + [p]
        raise Unsupported(f'statement {type(st).__name__} (line {st.lineno})')

    def assign(self, t, v, p):
        if isinstance(t, ast.Name):
            p.names[t.id] = v
        elif isinstance(t, ast.Tuple | ast.List):
            for e in t.elts:
                self.assign(e.value if isinstance(e, ast.Starred) else e, self.view(p, self.expand(p, v)), p)
        elif isinstance(t, ast.Subscript):
            self.expr(t.slice, p)
            base = self.expr(t.value, p)
            if base in p.fields:
                p.ins.append(('write', base))      # item assignment on a local container: the container itself
            else:
                p.ins.append(('write', base))
        elif isinstance(t, ast.Attribute):
            base = self.expr(t.value, p)
            if base in p.fields:
                key = 'data' if t.attr in ('data', 'values', 'variances') else t.attr
                p.fields[base][key] = v
            else:
                p.ins.append(('write', base))
        else:
            raise Unsupported(f'assignment target {type(t).__name__}')

    # ---- expressions --------------------------------------------------------------------------------
    def expr(self, e, p):
        if isinstance(e, ast.Name):
            if e.id in p.names:
                return p.names[e.id]
            return self.fresh(p)       # module-level object / builtin constant
        if isinstance(e, ast.Constant | ast.JoinedStr | ast.Lambda):
            if isinstance(e, ast.JoinedStr):
                for val in e.values:
                    if isinstance(val, ast.FormattedValue):
                        self.expr(val.value, p)
            return self.fresh(p)
        if isinstance(e, ast.BinOp):
            self.expr(e.left, p)
            self.expr(e.right, p)
            return self.fresh(p)
        if isinstance(e, ast.UnaryOp):
            self.expr(e.operand, p)
            return self.fresh(p)
        if isinstance(e, ast.BoolOp):
            vs = [self.expr(x, p) for x in e.values]
            return self.view(p, [y for v in vs for y in self.expand(p, v)])
        if isinstance(e, ast.Compare):
            self.expr(e.left, p)
            for c in e.comparators:
                self.expr(c, p)
            return self.fresh(p)
        if isinstance(e, ast.IfExp):
            self.expr(e.test, p)
            a, b = self.expr(e.body, p), self.expr(e.orelse, p)
            return self.view(p, self.expand(p, a) + self.expand(p, b))
        if isinstance(e, ast.Tuple | ast.List | ast.Set):
            vs = [self.expr(x.value if isinstance(x, ast.Starred) else x, p) for x in e.elts]
            return self.view(p, [y for v in vs for y in self.expand(p, v)])
        if isinstance(e, ast.Dict):
            vs = []
            for k, val in zip(e.keys, e.values):
                if k is not None:
                    self.expr(k, p)
                vs.append(self.expr(val, p))
            return self.view(p, [y for v in vs for y in self.expand(p, v)])
        if isinstance(e, ast.Starred):
            return self.expr(e.value, p)
        if isinstance(e, ast.Slice):
            for x in (e.lower, e.upper, e.step):
                if x is not None:
                    self.expr(x, p)
            return self.fresh(p)
        if isinstance(e, ast.Attribute):
            if isinstance(e.value, ast.Name) and e.value.id in MODULE_NAMES and e.value.id not in p.names:
                return self.fresh(p)
            base = self.expr(e.value, p)
            if base in p.fields:
                key = 'data' if e.attr in ('data', 'values', 'variances') else e.attr
                f = p.fields[base]
                return f[key] if key in f else f['*']
            if e.attr in META_ATTRS:
                return self.fresh(p)
            return self.view(p, [base])
        if isinstance(e, ast.Subscript):
            self.expr(e.slice, p)
            base = self.expr(e.value, p)
            if base in p.fields:
                f = p.fields[base]
                v = self.fresh(p)
                p.fields[v] = {k: self.view(p, self.expand(p, x)) for k, x in f.items()}
                return v
            return self.view(p, [base])
        if isinstance(e, ast.ListComp | ast.SetComp | ast.GeneratorExp | ast.DictComp):
            saved = dict(p.names)
            for g in e.generators:
                it = self.expr(g.iter, p)
                self.assign(g.target, self.view(p, self.expand(p, it)), p)
                for c in g.ifs:
                    self.expr(c, p)
            if isinstance(e, ast.DictComp):
                self.expr(e.key, p)
                v = self.expr(e.value, p)
            else:
                v = self.expr(e.elt, p)
            p.names = saved
            return self.view(p, self.expand(p, v))
        if isinstance(e, ast.Call):
            return self.call(e, p)
        raise Unsupported(f'expression {type(e).__name__} (line {e.lineno})')

    def kw_const(self, e, name, default):
        for k in e.keywords:
            if k.arg == name:
                if isinstance(k.value, ast.Constant):
                    return k.value.value
                return 'dynamic'
        return default

    def call(self, e, p):
        f = e.func
        # evaluate arguments (left to right), remember `out=`
        argvars = []
        out_var = None
        for a in e.args:
            argvars.append((None, self.expr(a, p)))
        for k in e.keywords:
            v = self.expr(k.value, p)
            if k.arg == 'out':
                out_var = v
            else:
                argvars.append((k.arg, v))
        allargs = [y for _, v in argvars for y in self.expand(p, v)]

        def finish_out(res_srcs=None):
            if out_var is not None:
                self.write(p, out_var)
                return self.view(p, [out_var])
            return None

        # ---- library functions: sc.X(...), np.X(...), math.X(...)
        if isinstance(f, ast.Attribute) and self.is_module_expr(f.value, p):
            name = f.attr
            if name == 'to_unit':
                copy = self.kw_const(e, 'copy', True)
                if copy is False and argvars:
                    v = self.new(p)
                    p.ins.append(('conv', v, argvars[0][1], self.bit(e)))
                    return v
                if copy == 'dynamic':
                    raise Unsupported('to_unit with dynamic copy flag')
                return self.fresh(p)
            if name in ('values', 'variances', 'stddevs'):
                return self.view(p, allargs) if name == 'values' else self.fresh(p)
            if name in ('DataArray', 'Dataset', 'DataGroup'):
                return self.view(p, allargs)
            if name == 'deepcopy':
                return self.fresh(p)
            r = finish_out()
            if r is not None:
                return r
            return self.fresh(p)
        # ---- methods
        if isinstance(f, ast.Attribute):
            base = self.expr(f.value, p)
            name = f.attr
            if name in ('to', 'astype'):
                copy = self.kw_const(e, 'copy', True)
                if copy is False:
                    v = self.new(p)
                    src = p.fields[base].get('data', p.fields[base]['*']) if base in p.fields else base
                    p.ins.append(('conv', v, src, self.bit(e)))
                    return v
                if copy == 'dynamic':
                    raise Unsupported(f'.{name} with dynamic copy flag')
                return self.fresh(p)
            if name == 'copy':
                deep = self.kw_const(e, 'deep', True)
                if deep is False:
                    v = self.fresh(p)
                    src = self.expand(p, base)
                    p.fields[v] = {'data': self.view(p, src), '*': self.view(p, src)}
                    return v
                if deep == 'dynamic':
                    raise Unsupported('copy with dynamic deep flag')
                return self.fresh(p)
            if name in MUTATING_METHODS:
                p.ins.append(('write', base))
                return self.view(p, self.expand(p, base) + allargs)
            if name in VIEW_METHODS:
                return self.view(p, self.expand(p, base) + allargs)
            if name in PURE_METHODS:
                r = finish_out()
                return r if r is not None else self.fresh(p)
            # a method of the same class that is itself a target
            if isinstance(f.value, ast.Name) and f.value.id == 'self' and self.fi.cls:
                callee = self.tr.info(self.fi.file, f'{self.fi.cls}.{name}')
                if callee.error is None and callee.node is not None and callee.allowed is not None:
                    return self.apply_callee(callee, [(None, base)] + argvars, p)
            raise Unsupported(f'unknown method .{name} (line {e.lineno})')
        # ---- plain names
        if isinstance(f, ast.Name):
            name = f.id
            if name in p.names:
                raise Unsupported(f'call of a local object {name} (line {e.lineno})')
            if name in PURE_BUILTINS:
                return self.fresh(p)
            if name in VIEW_BUILTINS:
                return self.view(p, allargs)
            if name in SHALLOW_BUILTINS:
                v = self.fresh(p)
                if allargs:
                    p.fields[v] = {'*': self.view(p, allargs)}
                return v
            if name == 'deepcopy':
                return self.fresh(p)
            target = self.tr.resolve_callee(self.fi.file, name)
            if target is not None:
                callee = self.tr.info(*target)
                if callee.error is not None:
                    raise Unsupported(f'calls {name}, which is untranslated ({callee.error})')
                return self.apply_callee(callee, argvars, p)
            if name.lstrip('_')[:1].isupper():
                return self.view(p, allargs)        # constructor of a record / exception: holds its arguments
            raise Unsupported(f'unknown function {name} (line {e.lineno})')
        raise Unsupported(f'call of {type(f).__name__} (line {e.lineno})')

    def is_module_expr(self, v, p):
        if isinstance(v, ast.Name):
            return v.id in MODULE_NAMES and v.id not in p.names
        if isinstance(v, ast.Attribute):
            return self.is_module_expr(v.value, p)
        return False

    def apply_callee(self, callee: FnInfo, argvars, p):
        params = callee.params
        bound = {}
        pos = 0
        for name, v in argvars:
            if name is None:
                if pos < len(params):
                    bound[pos] = v
                pos += 1
            elif name in params:
                bound[params.index(name)] = v
        for j in callee.allowed or []:
            if j in bound:
                self.write(p, bound[j])
        return self.view(p, [y for j, v in bound.items() if j in (callee.ret_alias or []) for y in self.expand(p, v)])


# ---- rendering ----------------------------------------------------------------------------------------

def lean_ins(ins):
    op = ins[0]
    if op == 'fresh':
        return f'.fresh {ins[1]}'
    if op == 'view':
        return f'.view {ins[1]} [{", ".join(str(x) for x in ins[2])}]'
    if op == 'conv':
        return f'.conv {ins[1]} {ins[2]} {ins[3]}'
    return f'.write {ins[1]}'


def ident(file, qual, k):
    s = (file[:-3] + '.' + qual).replace('/', '.').replace('.', '_')
    return f'k_{s}' + (f'_p{k}' if k else '')


def analyse(repo):
    tr = Translator(repo)
    done, failed = [], []
    for file, qual, public in TARGETS:
        fi = tr.info(file, qual, public)
        fi.public = public
        if fi.error is not None:
            failed.append((file, qual, fi.error))
        else:
            done.append(fi)
    return done, failed


def render(repo):
    done, failed = analyse(repo)
    out = [
        '/- GENERATED by harness/translate/kernels.py from the function bodies under src/scippneutron — do not edit. -/',
        'import ScnVerif.Model.Heap',
        'namespace ScnVerif.Gen.Kernels',
        'open ScnVerif.Heap',
        '',
    ]
    names = []
    for fi in done:
        for k, prog in enumerate(fi.paths):
            nm = ident(fi.file, fi.qual, k)
            names.append(nm)
            qn = f'{fi.file}:{fi.qual}' + (f' path {k}' if len(fi.paths) > 1 else '')
            out.append(f'/-- `{qn}` ({", ".join(fi.params)}) -/')
            out.append(f'def {nm} : Kernel :=')
            out.append(f'  {{ name := [{", ".join(str(b) for b in qn.encode())}], nargs := {len(fi.params)}, bits := {fi.bits},')
            out.append(f'    allowed := [{", ".join(str(j) for j in fi.allowed)}], isPublic := {"true" if fi.public else "false"},')
            ret = fi.rets[k]
            out.append(f'    ret := {"none" if ret is None else "some " + str(ret)}, retAllowed := [{", ".join(str(j) for j in fi.ret_alias)}],')
            body = ',\n      '.join(lean_ins(i) for i in prog)
            out.append(f'    ir := [\n      {body}] }}')
            out.append('')
    chunks = [names[i:i + 40] for i in range(0, len(names), 40)]
    for i, ch in enumerate(chunks):
        out.append(f'def all_{i} : List Kernel := [{", ".join(ch)}]')
    out.append('def all : List Kernel := ' + (' ++ '.join(f'all_{i}' for i in range(len(chunks))) or '[]'))
    out.append('')
    out.append('/-- functions the translator could not express ("dynamic only") -/')
    out.append('def untranslated : List String := [')
    out.append(',\n'.join('  "' + f'{file}:{qual}: {err}'.replace('\\', '/').replace('"', "'") + '"' for file, qual, err in failed))
    out.append(']')
    out.append('end ScnVerif.Gen.Kernels')
    return '\n'.join(out) + '\n'


def translate(repo: str) -> list[str]:
    path = os.path.join(GEN_DIR, 'Kernels.lean')
    return [path] if write_if_changed(path, render(repo)) else []


if __name__ == '__main__':
    import sys

    repo = sys.argv[1] if len(sys.argv) > 1 else '/repo'
    done, failed = analyse(repo)
    for fi in done:
        print(f'OK   {fi.file}:{fi.qual} paths={len(fi.paths)} bits={fi.bits} allowed={fi.allowed} ret_alias={fi.ret_alias} public={fi.public} '
              f'instrs={sum(len(p) for p in fi.paths)}')
    for f in failed:
        print('FAIL', *f)
    print(translate(repo))
