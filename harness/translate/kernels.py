"""Translator: bodies of (mostly) straight-line scipp functions -> heap IR in lean/ScnVerif/Gen/Kernels.lean (C09 a).

Every function listed in ``TARGETS`` is parsed with ``ast`` and mapped onto the four instructions of
``Model/Heap.lean`` (``fresh``, ``view``, ``conv``, ``write``).  The classification of scipp / numpy
operations into fresh / view / in-place is the table below (trusted; exercised by the dynamic tie of
``harness/props/c09.py``).  A function that uses a construct the translator does not know is NOT skipped
silently: it is returned in the ``untranslated`` list with the reason, listed in the generated file
and in the evidence as "dynamic only".

Rules (conservative = more aliasing, more writes):
* parameters are variables ``0..n-1`` (``self`` included); every other name is a local variable;
* arithmetic, comparisons, literals, pure library calls, ``.copy()``, ``.to(copy=True)`` → ``fresh``;
* attribute access, subscripts/slices, ``transpose``/``broadcast``/``fold``/``flatten``, ``bins.constituents``,
  ``.values``, tuple/list/dict displays, conditional expressions, results of calls to other translated
  functions → ``view`` (may alias any operand);
* ``x.to(unit=…, dtype=…, copy=False)``, ``x.astype(…, copy=False)``, ``sc.to_unit(x, …, copy=False)`` → ``conv``
  with a new configuration bit (aliases ``x`` iff unit/dtype already match);
* ``v op= e``, ``f(…, out=v)``, ``v[...] = e``, mutating container methods → ``write v``;
* ``x.copy(deep=False)``, ``dict(x)``, ``dict(x.items())``, ``list(x)`` → a new local container whose fields view ``x``;
  assigning an attribute of a local container rebinds that field, assigning an attribute of anything else is
  a ``write``; in-place arithmetic on a container with a ``data`` field writes that field only;
* control flow is JOINED, not forked: both branches of an ``if`` (all handlers of a ``try``, all cases of a ``match``)
  are translated one after the other from the same bindings; a name bound differently on the branches becomes a
  ``view`` of both values.  Every IR variable is assigned once, so the may-alias / may-write analysis of the joined
  program is the union over the branches (one program per function);
* loops (``for`` / ``while`` / comprehensions) are translated by repeating the body until the abstract state (may-alias
  sets of all names and the written set, under the all-aliasing configuration) is stable: the repeated body is the
  loop invariant; a loop that does not stabilise within 8 rounds makes the function untranslated;
* lists, tuples, dicts and constructor calls create local *records* that store references to their elements (keyword
  arguments / constant string keys as named fields); list / dict ARGUMENTS are buffers like any other argument, so
  ``choppers.sort()``, ``.append``, ``del x[k]`` on an argument is a ``write`` to it;
* attribute reads (fields and properties) are views of the object;
* a module-level name bound to a dict / list / set (or declared ``global``) is module state: every function that
  touches it gets a pseudo-argument for it after its real parameters (``nreal`` … ``nargs``), reading it is a view
  of that pseudo-argument, item assignment / ``.append`` / rebinding is a ``write`` to it, and callers inherit the
  pseudo-arguments of their callees; the functions concerned are reported as ``global-state``; Lean's check rejects
  any kernel whose may-write set contains a pseudo-argument;
* calls: functions of the package use the callee's own summary — parameters it may write, parameters its result
  (and each named field of a returned record) may alias — re-checked in Lean for the callee; a method called on an
  object that is not ``self`` dispatches to EVERY class of the package that defines a method of that name (union of the
  summaries); calling an object held in a whitelisted field (``_left``, ``_right``, ``peak``, ``background``)
  dispatches to every ``__call__``; ``functools.partial`` objects and nested ``def``s are closures over their bound
  arguments; callable parameters are resolved through the explicit table ``CALLABLE_PARAMS``; recursion is handled by
  growing the assumed summary to a fixpoint; external functions must be in the explicit whitelists (``PURE_BUILTINS``,
  ``OPAQUE_PURE``, ``PURE_METHODS`` …) — anything else makes the function untranslated, with the reason recorded.
"""
from __future__ import annotations

import ast
import os

from .util import GEN_DIR, write_if_changed

# (file, qualified name, public?)
TARGETS = [
    ('_utils/__init__.py', 'elem_unit', False),
    ('_utils/__init__.py', 'elem_dtype', False),
    ('_utils/__init__.py', 'float_dtype', False),
    ('_utils/__init__.py', 'as_float_type', False),
    ('conversion/beamline.py', 'L1', True),
    ('conversion/beamline.py', 'L2', True),
    ('conversion/beamline.py', 'straight_incident_beam', True),
    ('conversion/beamline.py', 'straight_scattered_beam', True),
    ('conversion/beamline.py', 'total_beam_length', True),
    ('conversion/beamline.py', 'total_straight_beam_length_no_scatter', True),
    ('conversion/beamline.py', 'two_theta', True),
    ('conversion/beamline.py', 'beam_aligned_unit_vectors', True),
    ('conversion/beamline.py', '_drop_due_to_gravity', False),
    ('conversion/beamline.py', '_scattering_angles_with_gravity_generic', False),
    ('conversion/beamline.py', '_scattering_angles_with_gravity_orthogonal_coords', False),
    ('conversion/beamline.py', 'scattering_angles_with_gravity', True),
    ('conversion/beamline.py', 'scattering_angle_in_yz_plane', True),
    ('conversion/tof.py', '_common_dtype', False),
    ('conversion/tof.py', 'wavelength_from_tof', True),
    ('conversion/tof.py', 'dspacing_from_tof', True),
    ('conversion/tof.py', '_energy_constant', False),
    ('conversion/tof.py', 'energy_from_tof', True),
    ('conversion/tof.py', '_energy_transfer_t0', False),
    ('conversion/tof.py', 'energy_transfer_direct_from_tof', True),
    ('conversion/tof.py', 'energy_transfer_indirect_from_tof', True),
    ('conversion/tof.py', 'energy_from_wavelength', True),
    ('conversion/tof.py', 'wavelength_from_energy', True),
    ('conversion/tof.py', '_wavelength_Q_conversions', False),
    ('conversion/tof.py', 'Q_from_wavelength', True),
    ('conversion/tof.py', 'wavelength_from_Q', True),
    ('conversion/tof.py', 'Q_elements_from_wavelength', True),
    ('conversion/tof.py', 'dspacing_from_wavelength', True),
    ('conversion/tof.py', 'dspacing_from_energy', True),
    ('conversion/tof.py', 'Q_vec_from_Q_elements', True),
    ('conversion/tof.py', 'ub_matrix_from_u_and_b', True),
    ('conversion/tof.py', 'hkl_vec_from_Q_vec', True),
    ('conversion/tof.py', 'hkl_elements_from_hkl_vec', True),
    ('conversion/tof.py', 'time_at_sample_from_tof', True),
    ('peaks/model.py', '_gaussian', False),
    ('peaks/model.py', '_lorentzian', False),
    ('peaks/model.py', '_guess_from_peak', False),
    ('peaks/model.py', 'GaussianModel._call', True),
    ('peaks/model.py', 'LorentzianModel._call', True),
    ('peaks/model.py', 'PolynomialModel._call', True),
    ('peaks/model.py', 'PseudoVoigtModel._call', True),
    ('peaks/model.py', 'CompositeModel._call', True),
    ('peaks/model.py', 'Model.with_prefix', True),
    ('peaks/_remove_peaks.py', 'remove_peaks', True),
    ('peaks/_fit_peaks.py', '_chi_square', False),
    ('peaks/_fit_peaks.py', '_akaike_information_criterion', False),
    ('peaks/_fit_peaks.py', '_clip_to_data_range', False),
    ('peaks/_fit_peaks.py', '_separate_from_neighbors_in_place', False),
    ('peaks/_fit_peaks.py', '_fit_windows', False),
    ('tof/chopper_cascade.py', 'wavelength_to_inverse_velocity', True),
    ('tof/chopper_cascade.py', 'propagate_times', True),
    ('tof/chopper_cascade.py', 'Subframe.propagate_by', True),
    ('tof/chopper_cascade.py', '_chop', False),
    ('absorption/cylinder.py', 'Cylinder.quadrature', True),
    ('absorption/base.py', '_integrate_transmission_fraction', False),
    ('io/sqw/_build.py', '_split_pix_rows', False),
    # --- second round: more entry points inside the proved model
    ('peaks/model.py', 'Model.__call__', True),
    ('peaks/model.py', 'Model.guess', True),
    ('peaks/model.py', 'GaussianModel._guess', True),
    ('peaks/model.py', 'LorentzianModel._guess', True),
    ('peaks/model.py', 'PseudoVoigtModel._guess', True),
    ('peaks/model.py', 'PolynomialModel._guess', True),
    ('peaks/model.py', 'CompositeModel._guess', True),
    ('peaks/model.py', 'GaussianModel.fwhm', True),
    ('peaks/model.py', 'LorentzianModel.fwhm', True),
    ('peaks/model.py', 'PseudoVoigtModel.fwhm', True),
    ('peaks/_fit_peaks.py', 'FitResult.eval_peak', True),
    ('peaks/_fit_peaks.py', 'FitResult.eval_model', True),
    ('peaks/_fit_peaks.py', 'FitResult.for_failure', True),
    ('peaks/_fit_peaks.py', 'fit_peaks', True),
    ('peaks/_fit_peaks.py', '_fit_peak', False),
    ('peaks/_fit_peaks.py', '_fit_peak_single_model', False),
    ('peaks/_fit_peaks.py', '_fit_background', False),
    ('peaks/_fit_peaks.py', '_perform_fit', False),
    ('peaks/_fit_peaks.py', '_goodness_of_fit_statistics', False),
    ('peaks/_fit_peaks.py', '_assess_fit', False),
    ('peaks/_fit_peaks.py', '_peak_is_near_edge', False),
    ('peaks/_fit_peaks.py', '_peak_is_too_wide', False),
    ('peaks/_fit_peaks.py', '_peak_is_too_narrow', False),
    ('peaks/_fit_peaks.py', '_guess_background', False),
    ('peaks/_fit_peaks.py', '_guess_peak', False),
    ('peaks/_fit_peaks.py', '_parse_model_spec', False),
    ('peaks/_fit_peaks.py', '_assert_data_is_supported', False),
    ('absorption/cylinder.py', 'Cylinder.beam_intersection', True),
    ('absorption/cylinder.py', 'Cylinder._select_quadrature_points', False),
    ('absorption/cylinder.py', '_line_infinite_cylinder_intersection', False),
    ('absorption/cylinder.py', '_line_slab_intersection', False),
    ('absorption/cylinder.py', '_positive_interval_intersection', False),
    ('absorption/cylinder.py', '_cylinder_quadrature_from_product', False),
    ('absorption/base.py', 'compute_transmission_map', True),
    ('absorption/base.py', '_single_scatter_distance_through_sample', False),
    ('absorption/base.py', '_transmission_fraction', False),
    ('absorption/material.py', 'Material.attenuation_coefficient', True),
    ('chopper/disk_chopper.py', 'DiskChopper.time_offset_open', True),
    ('chopper/disk_chopper.py', 'DiskChopper.time_offset_close', True),
    ('chopper/disk_chopper.py', 'DiskChopper.time_offset_angle_at_beam', True),
    ('chopper/disk_chopper.py', 'DiskChopper.open_duration', True),
    ('chopper/disk_chopper.py', 'DiskChopper._apply_angle_repetitions', False),
    ('chopper/disk_chopper.py', 'DiskChopper._source_phase_factor', False),
    ('chopper/filtering.py', 'find_plateaus', True),
    ('chopper/filtering.py', 'collapse_plateaus', True),
    ('chopper/filtering.py', 'filter_in_phase', True),
    ('chopper/filtering.py', '_derive', False),
    ('chopper/filtering.py', '_next_highest', False),
    ('tof/chopper_cascade.py', 'Frame.propagate_to', True),
    ('tof/chopper_cascade.py', 'Frame.chop', True),
    ('tof/chopper_cascade.py', 'Frame.bounds', True),
    ('tof/chopper_cascade.py', 'Frame.subbounds', True),
    ('tof/chopper_cascade.py', 'FrameSequence.propagate_to', True),
    ('tof/chopper_cascade.py', 'FrameSequence.chop', True),
    ('tof/chopper_cascade.py', 'FrameSequence.from_source_pulse', True),
    ('tof/chopper_cascade.py', 'Chopper.from_disk_chopper', True),
    ('io/xye.py', 'save_xye', True),
    ('io/xye.py', '_deduce_coord', False),
    ('io/xye.py', '_generate_xye_header', False),
    # --- factories over module-level tables (module-level mutable state is a pseudo-argument)
    ('conversion/graph/tof.py', 'elastic', True),
    ('conversion/graph/tof.py', 'kinematic', True),
    ('conversion/graph/tof.py', 'elastic_dspacing', True),
    ('conversion/graph/tof.py', 'elastic_energy', True),
    ('conversion/graph/tof.py', 'elastic_Q', True),
    ('conversion/graph/tof.py', 'elastic_Q_vec', True),
    ('conversion/graph/tof.py', 'elastic_hkl', True),
    ('conversion/graph/tof.py', 'elastic_wavelength', True),
    ('conversion/graph/tof.py', 'direct_inelastic', True),
    ('conversion/graph/tof.py', 'indirect_inelastic', True),
    ('conversion/graph/beamline.py', 'incident_beam', True),
    ('conversion/graph/beamline.py', 'scattered_beam', True),
    ('conversion/graph/beamline.py', 'two_theta', True),
    ('conversion/graph/beamline.py', 'L1', True),
    ('conversion/graph/beamline.py', 'L2', True),
    ('conversion/graph/beamline.py', 'Ltotal', True),
    ('conversion/graph/beamline.py', 'beamline', True),
    ('core/conversions.py', 'conversion_graph', True),
    ('atoms/__init__.py', 'Atom.for_isotope', True),
    ('atoms/__init__.py', 'ScatteringParams.for_isotope', True),
    ('atoms/__init__.py', '_load_scattering_params', False),
    ('atoms/__init__.py', 'reference_wavelength', True),
]

MODULE_NAMES = {'uuid', 'quadratures', 'sc', 'np', 'math', 'const', 'scipp', 'numpy', 'constants', 'itertools', 'dataclasses', 'copy', 'warnings', 'enum'}
PURE_BUILTINS = {'max', 'min', 'len', 'int', 'float', 'range', 'set', 'frozenset', 'abs', 'isinstance', 'sum', 'str', 'bool',
                 'round', 'any', 'all', 'repr', 'type', 'hasattr', 'ValueError', 'TypeError', 'RuntimeError', 'NotImplementedError',
                 'IndexError', 'KeyError', 'print', 'id', 'issubclass', 'pow', 'divmod'}
VIEW_BUILTINS = {'zip', 'enumerate', 'sorted', 'reversed', 'iter', 'next', 'getattr', 'tuple', 'map', 'filter'}
SHALLOW_BUILTINS = {'dict', 'list'}
# attributes that are metadata / immutable values, not buffers
META_ATTRS = {'unit', 'dtype', 'dims', 'dim', 'sizes', 'shape', 'ndim', 'degree', 'prefix', 'size', 'name', '_prefix',
              'frequency', 'phase', 'args', 'bins' if False else '__none__'}
VIEW_METHODS = {'transpose', 'broadcast', 'fold', 'flatten', 'squeeze', 'rename_dims', 'rename', 'items', 'keys', 'values', 'get',
                'drop_coords', 'drop_masks', 'assign_coords', 'assign_masks', 'constituents', 'with_prefix' if False else '__none__'}
MUTATING_METHODS = {'pop', 'append', 'update', 'clear', 'setdefault', 'extend', 'remove', 'insert', 'sort', 'reverse', 'popitem',
                    'add', 'discard', 'fill', 'resize', 'put', 'setflags'}
PURE_METHODS = {'match', 'search', 'fullmatch', 'files', 'joinpath', 'open', 'readline', 'readlines', 'read', 'close', 'rstrip', 'lstrip', 'groups', 'size', 'convert', 'cdf', 'pdf', 'group', 'bin', 'hist', 'replace', 'info', 'debug', 'warning', 'is_regular', 'isoformat', 'total_seconds', 'hex', 'encode', 'decode', 'ljust', 'rjust', 'title', 'capitalize', 'mean', 'max', 'min', 'sum', 'nansum', 'nanmean', 'all', 'any', 'issubset', 'issuperset', 'union', 'intersection',
                'format', 'startswith', 'endswith', 'join', 'split', 'copy', 'index', 'count', 'is_edges', 'to_dict', 'lower',
                'upper', 'strip', 'isdisjoint', 'difference', 'item', 'tolist', 'astype_copy', 'norm', 'inverse', 'underlying_size'}


class Unsupported(Exception):
    pass


# files whose classes are searched when a method is called on an object that is not `self`
CLASS_FILES = ['peaks/model.py', 'peaks/_fit_peaks.py', 'absorption/cylinder.py', 'absorption/material.py', 'absorption/types.py',
               'tof/chopper_cascade.py', 'chopper/disk_chopper.py']
# external callables assumed pure (they do not write through their arguments, the result is new)
OPAQUE_PURE = {'chebgauss', 'leggauss', 'uuid4', 'curve_fit', '_scipy_chi2', 'get_logger', 'partial_pure', 'datetime', 'timedelta', 'cast', 'field', 'replace',
               'TypeVar', 'Path', 'StringIO', 'BytesIO', 'open', 'product', 'chain', 'islice', 'accumulate'}
# fields that hold callable objects of the package (models); calling them dispatches to every `__call__`
CALLABLE_ATTRS = {'_left', '_right', 'peak', 'background'}
# parameters that are callables built with functools.partial by the (translated) caller: (file, function) -> {param: target}
CALLABLE_PARAMS = {
    ('absorption/base.py', '_integrate_transmission_fraction'): {
        'distance_through_sample': ('absorption/base.py', '_single_scatter_distance_through_sample'),
        'transmission': ('absorption/base.py', '_transmission_fraction'),
    },
}


class FnInfo:
    def __init__(self, file, qual, public, node, cls):
        self.file, self.qual, self.public, self.node, self.cls = file, qual, public, node, cls
        a = node.args
        self.params = [p.arg for p in a.posonlyargs + a.args]
        self.npos = len(self.params)
        self.vararg = a.vararg.arg if a.vararg else None
        if self.vararg:
            self.params.append(self.vararg)
        self.params += [p.arg for p in a.kwonlyargs]
        self.kwarg = a.kwarg.arg if a.kwarg else None
        if self.kwarg:
            self.params.append(self.kwarg)
        deco = [d.id if isinstance(d, ast.Name) else getattr(d, 'attr', '') for d in node.decorator_list]
        self.is_static = 'staticmethod' in deco
        self.paths = None        # list of instruction lists (one joined program per function)
        self.bits = 0
        self.allowed = None      # sorted list of parameter indices that may be written
        self.ret_alias = None    # sorted list of parameter indices the return value may alias
        self.rets = None
        self.nreal = len(self.params)
        self.globals = []        # (file, name) of module-level mutable objects used, in pseudo-argument order
        self.global_writes = set()
        self.cached = any(d in ('lru_cache', 'cache', 'cached_property') for d in deco)
        self.ret_container = False   # every returned value is a container created by the function (its elements may alias)
        self.ret_keys = {}       # key -> sorted parameter indices the value under that key of the returned record may alias
        self.key_vars = {}       # key -> IR variable holding that value
        self.error = None
        self.assumed = False     # a recursive call used the assumed summary (no writes, fresh result)


def written_args(n, prog, c, ret=None):
    """Python mirror of `Heap.writtenArgs` / `Heap.returnAliases` (the Lean side re-checks the result)"""
    env = {j: {j} for j in range(n)}
    w = set()
    for ins in prog:
        op = ins[0]
        if op == 'fresh':
            env[ins[1]] = set()
        elif op == 'view':
            s = set()
            for x in ins[2]:
                s |= env.get(x, set())
            env[ins[1]] = s
        elif op == 'conv':
            env[ins[1]] = set(env.get(ins[2], set())) if (c >> ins[3]) & 1 else set()
        elif op == 'write':
            w |= env.get(ins[1], set())
    if ret is not None:
        return w, env.get(ret, set())
    return w


def abstract_env(n, prog):
    """may-alias sets of all variables and the written set under the all-aliasing configuration"""
    env = {j: {j} for j in range(n)}
    w = set()
    for ins in prog:
        op = ins[0]
        if op == 'fresh':
            env[ins[1]] = set()
        elif op == 'view':
            s = set()
            for x in ins[2]:
                s |= env.get(x, set())
            env[ins[1]] = s
        elif op == 'conv':
            env[ins[1]] = set(env.get(ins[2], set()))
        elif op == 'write':
            w |= env.get(ins[1], set())
    return env, w


class Translator:
    def __init__(self, repo):
        self.repo = repo
        self.base = os.path.join(repo, 'src', 'scippneutron')
        self.trees = {}
        self.infos: dict[tuple[str, str], FnInfo] = {}
        self.in_progress = set()
        self.method_index = None

    def tree(self, file):
        if file not in self.trees:
            with open(os.path.join(self.base, file), encoding='utf-8') as f:
                self.trees[file] = ast.parse(f.read())
        return self.trees[file]

    def module_mutables(self, file):
        """names bound at module level to a mutable container (dict / list / set display, comprehension or constructor)"""
        if not hasattr(self, '_mutables'):
            self._mutables = {}
        if file not in self._mutables:
            out = set()
            for st in self.tree(file).body:
                targets, value = [], None
                if isinstance(st, ast.Assign):
                    targets, value = st.targets, st.value
                elif isinstance(st, ast.AnnAssign) and st.value is not None:
                    targets, value = [st.target], st.value
                mutable = isinstance(value, ast.Dict | ast.List | ast.Set | ast.ListComp | ast.DictComp | ast.SetComp) or (
                    isinstance(value, ast.Call) and isinstance(value.func, ast.Name)
                    and value.func.id in ('dict', 'list', 'set', 'defaultdict', 'OrderedDict', 'Counter', 'deque', 'bytearray'))
                if not mutable and isinstance(value, ast.Call | ast.BinOp):
                    # a scipp / numpy object built at import time (sc.scalar(...), np.array(...), const.h / const.m_n …)
                    mutable = any(isinstance(n, ast.Attribute) and isinstance(n.value, ast.Name)
                                  and n.value.id in ('sc', 'np', 'scipp', 'numpy', 'const') for n in ast.walk(value))
                if mutable:
                    out |= {t.id for t in targets if isinstance(t, ast.Name) and t.id != '__all__'}
            self._mutables[file] = out
        return self._mutables[file]

    def methods(self, name):
        """all (file, Class.method) defining a method `name` in the class files"""
        if self.method_index is None:
            self.method_index = {}
            for file in CLASS_FILES:
                if not os.path.exists(os.path.join(self.base, file)):
                    continue
                for node in self.tree(file).body:
                    if isinstance(node, ast.ClassDef):
                        for m in node.body:
                            if isinstance(m, ast.FunctionDef):
                                if any(isinstance(s, ast.Expr) and isinstance(s.value, ast.Constant) and s.value.value is Ellipsis for s in m.body):
                                    continue        # abstract method (body `...`)
                                self.method_index.setdefault(m.name, []).append((file, f'{node.name}.{m.name}'))
        return self.method_index.get(name, [])

    def find(self, file, qual):
        parts = qual.split('.')
        body = self.tree(file).body
        cls = None
        for part in parts:
            found = None
            for node in body:
                if isinstance(node, ast.FunctionDef | ast.ClassDef) and node.name == part:
                    found = node
            if found is None:
                return None, None
            if isinstance(found, ast.ClassDef):
                cls = found.name
                body = found.body
            else:
                return found, cls
        return None, None

    def info(self, file, qual, public=False):
        key = (file, qual)
        if key in self.infos:
            fi = self.infos[key]
            if key in self.in_progress:
                fi.assumed = True          # recursion: the assumed summary is checked when the function is finished
            return fi
        node, cls = self.find(file, qual)
        if node is None:
            fi = FnInfo(file, qual, public, ast.parse('def f(): pass').body[0], None)
            fi.error = 'function not found'
            fi.paths = []
            self.infos[key] = fi
            return fi
        fi = FnInfo(file, qual, public, node, cls)
        fi.allowed, fi.ret_alias = [], []          # the summary assumed for recursive calls (grown to a fixpoint)
        self.infos[key] = fi
        self.in_progress.add(key)
        try:
            for _round in range(10):
                fi.assumed = False
                created_before = set(self.infos)
                fi.params = fi.params[:fi.nreal] + [f'<global {g[0]}:{g[1]}>' for g in fi.globals]
                nglob = len(fi.globals)
                b = Body(self, fi)
                b.run()
                if len(fi.globals) != nglob:
                    continue        # a module-level object was met for the first time: it needs a pseudo-argument slot
                paths = [b.path.ins]
                rets = [b.ret_var]
                if b.nbits > 12:
                    raise Unsupported(f'{b.nbits} aliasing conversions in one function (more than 12 configuration bits)')
                allowed, ret_alias = set(), set()
                ret_keys = {k: set() for k in b.key_vars}
                for c in range(2 ** b.nbits):
                    w, r = written_args(len(fi.params), paths[0], c, rets[0] if rets[0] is not None else -1)
                    allowed |= w
                    ret_alias |= r
                    for k, kv in b.key_vars.items():
                        ret_keys[k] |= written_args(len(fi.params), paths[0], c, kv)[1]
                stable = (not fi.assumed) or (allowed <= set(fi.allowed) and ret_alias <= set(fi.ret_alias))
                fi.paths, fi.rets, fi.bits = paths, rets, b.nbits
                fi.key_vars = dict(b.key_vars)
                fi.ret_container = bool(b.returned) and b.containers_only
                fi.allowed = sorted(allowed | set(fi.allowed))
                fi.global_writes = {fi.globals[j - fi.nreal] for j in fi.allowed if j >= fi.nreal}
                fi.ret_alias = sorted(ret_alias | set(fi.ret_alias))
                fi.ret_keys = {k: sorted(v) for k, v in ret_keys.items()}
                if stable:
                    break
                # functions translated meanwhile may have used the too small assumed summary: redo them
                for k2 in set(self.infos) - created_before:
                    if k2 not in self.in_progress:
                        del self.infos[k2]
            else:
                raise Unsupported('recursive summary did not stabilise')
        except Unsupported as e:
            fi.error = str(e)
            fi.paths = []
            fi.allowed = None
        except RecursionError:
            fi.error = 'translator recursion limit'
            fi.paths = []
            fi.allowed = None
        finally:
            self.in_progress.discard(key)
        return fi

    def resolve_module(self, file, name):
        """file of a module of the package imported under `name` (from . import x / from ..a.b import x as name)"""
        for st in self.tree(file).body:
            if isinstance(st, ast.ImportFrom) and any((a.asname or a.name) == name for a in st.names):
                orig = next(a.name for a in st.names if (a.asname or a.name) == name)
                mod = (st.module or '').replace('.', '/')
                if st.level == 0:
                    if not (st.module or '').startswith('scippneutron'):
                        continue
                    mod = mod[len('scippneutron'):].lstrip('/')
                d = os.path.dirname(file)
                for _ in range(max(st.level - 1, 0)):
                    d = os.path.dirname(d)
                for cand in (os.path.join(d if st.level else '', mod, orig + '.py'), os.path.join(d if st.level else '', mod, orig, '__init__.py')):
                    cand = os.path.normpath(cand)
                    if os.path.exists(os.path.join(self.base, cand)):
                        return cand
        return None

    def resolve_callee(self, file, name):
        """a module-level function of the same file, or one imported from the package"""
        node, _ = self.find(file, name)
        if node is not None:
            return file, name
        for st in self.tree(file).body:
            if isinstance(st, ast.ImportFrom) and st.module and any((a.asname or a.name) == name for a in st.names):
                orig = next(a.name for a in st.names if (a.asname or a.name) == name)
                mod = st.module.replace('.', '/')
                if st.level == 0:
                    if not st.module.startswith('scippneutron'):
                        continue
                    mod = mod[len('scippneutron'):].lstrip('/')
                d = os.path.dirname(file)
                for _ in range(max(st.level - 1, 0)):
                    d = os.path.dirname(d)
                for cand in (os.path.normpath(os.path.join(d if st.level else '', (mod or '.') + '.py')),
                             os.path.normpath(os.path.join(d if st.level else '', mod, '__init__.py'))):
                    if os.path.exists(os.path.join(self.base, cand)):
                        n2, _ = self.find(cand, orig)
                        if n2 is not None:
                            return cand, orig
        return None


class Path:
    def __init__(self, nparams):
        self.ins = []
        self.names = {}
        self.fields = {}     # var -> {'data': var, '*': var}   (local containers)
        self.closures = {}   # var -> ('partial', target, bound vars) | ('def', node, captured names)
        self.next = nparams
        self.dead = False    # after return / raise / continue / break on this branch


class Body:
    """Translation of one function body into ONE straight-line program.

    Control flow is joined, not forked: both branches of an `if` (all handlers of a `try`, all cases of a
    `match`) are translated one after the other from the same bindings, and a name bound differently on the
    branches becomes a `view` of both values. Every IR variable is assigned once, so the may-alias / may-write
    analysis of the joined program is the union over the branches. Loops are translated by repeating the body
    until the abstract state (may-alias sets of all names, written set, under the all-aliasing configuration)
    no longer changes; the repeated body is the invariant."""

    MAX_UNROLL = 8

    def __init__(self, tr: Translator, fi: FnInfo):
        self.tr, self.fi = tr, fi
        self.nbits = 0
        self.site_bits = {}
        self.path = Path(len(fi.params))
        self.declared_global = set()
        self.returned = []
        self.returned_keys = {}      # key -> vars (only while every returned value is a record with named fields)
        self.records_only = True
        self.containers_only = True
        self.key_vars = {}
        self.ret_var = None

    # ---- driving ------------------------------------------------------------------------------------
    def run(self):
        p = self.path
        for i, name in enumerate(self.fi.params):
            p.names[name] = i
        self.block(self.fi.node.body, p)
        if self.returned:
            self.ret_var = self.view(p, self.returned)
            if self.records_only:
                for k, vs in self.returned_keys.items():
                    self.key_vars[k] = self.view(p, vs)

    def block(self, stmts, p):
        for st in stmts:
            if p.dead:
                break
            self.stmt(st, p)

    def branch(self, p, bodies):
        """translate alternative blocks from the same bindings and join the bindings afterwards"""
        start_names, start_fields, start_cl = dict(p.names), {k: dict(v) for k, v in p.fields.items()}, dict(p.closures)
        results = []
        for body in bodies:
            p.names, p.dead = dict(start_names), False
            p.fields = {k: dict(v) for k, v in start_fields.items()}
            p.closures = dict(start_cl)
            if callable(body):
                body()
            else:
                self.block(body, p)
            results.append((dict(p.names), {k: dict(v) for k, v in p.fields.items()}, dict(p.closures), p.dead))
        live = [r for r in results if not r[3]]
        if not live:
            p.dead = True
            p.names = dict(start_names)
            return
        p.dead = False
        merged = {}
        for name in {n for r in live for n in r[0]}:
            vals = [r[0][name] for r in live if name in r[0]]
            if len(set(vals)) == 1 and len(vals) == len(live):
                merged[name] = vals[0]
            else:
                merged[name] = None, list(dict.fromkeys(vals))
        p.fields = {}
        p.closures = {}
        for r in live:
            for k, v in r[1].items():
                p.fields.setdefault(k, v)
            p.closures.update(r[2])
        p.names = {}
        for name, v in merged.items():
            if isinstance(v, tuple):
                p.names[name] = self.view(p, [y for x in v[1] for y in self.expand(p, x)])
            else:
                p.names[name] = v

    # ---- helpers ------------------------------------------------------------------------------------
    def global_var(self, p, key):
        """the pseudo-argument standing for module-level mutable object `key` = (file, name)"""
        if key not in self.fi.globals:
            self.fi.globals.append(key)
            return self.fresh(p)        # this round only discovers it; the function is translated again
        idx = self.fi.nreal + self.fi.globals.index(key)
        if idx >= len(self.fi.params):
            return self.fresh(p)
        return idx

    def new(self, p):
        v = p.next
        p.next += 1
        return v

    def fresh(self, p):
        v = self.new(p)
        p.ins.append(('fresh', v))
        return v

    def view(self, p, srcs):
        srcs = list(dict.fromkeys(srcs))
        v = self.new(p)
        p.ins.append(('view', v, srcs) if srcs else ('fresh', v))
        return v

    def expand(self, p, v, depth=0):
        """all buffers reachable from variable v (its fields if it is a local container)"""
        if v in p.fields and depth < 6:
            return [v] + [x for f in p.fields[v].values() for x in self.expand(p, f, depth + 1)]
        return [v]

    def write(self, p, v):
        if v in p.fields and 'data' in p.fields[v]:
            self.write(p, p.fields[v]['data'])      # in-place arithmetic on a data array writes its data buffer
        else:
            p.ins.append(('write', v))              # a plain container (or buffer) is written itself, not its elements

    def bit(self, node):
        key = (node.lineno, node.col_offset)
        if key not in self.site_bits:
            self.site_bits[key] = self.nbits
            self.nbits += 1
        return self.site_bits[key]

    def state_signature(self, p):
        env, w = abstract_env(len(self.fi.params), p.ins)
        sig = {}
        for name, v in p.names.items():
            s = set()
            for y in self.expand(p, v):
                s |= env.get(y, set())
            sig[name] = frozenset(s)
        return sig, frozenset(w)

    def loop(self, p, bind_target, body, orelse):
        prev = None
        for _ in range(self.MAX_UNROLL):
            def once():
                bind_target()
                self.block(body, p)
                p.dead = False          # continue / break end the iteration, not the function
            # the loop may run zero times: join "skip" with "one more iteration"
            self.branch(p, [[], once])
            sig = self.state_signature(p)
            if sig == prev:
                break
            prev = sig
        else:
            raise Unsupported('loop did not reach a stable abstract state')
        if orelse:
            self.block(orelse, p)

    # ---- statements ---------------------------------------------------------------------------------
    def stmt(self, st, p):
        if isinstance(st, ast.Expr):
            if not isinstance(st.value, ast.Constant):
                self.expr(st.value, p)
            return
        if isinstance(st, ast.Global):
            self.declared_global |= set(st.names)
            return
        if isinstance(st, ast.Pass | ast.Import | ast.ImportFrom | ast.Assert | ast.Nonlocal):
            return
        if isinstance(st, ast.Return):
            if st.value is not None:
                v = self.expr(st.value, p)
                self.returned += self.expand(p, v)
                if v not in p.fields:
                    self.containers_only = False
                named = {k: x for k, x in p.fields.get(v, {}).items() if k not in ('*',)}
                if v in p.fields and '*' not in p.fields[v] and named:
                    for k, x in named.items():
                        self.returned_keys.setdefault(k, []).extend(self.expand(p, x))
                else:
                    self.records_only = False
            p.dead = True
            return
        if isinstance(st, ast.Raise):
            if st.exc is not None:
                self.expr(st.exc, p)
            p.dead = True
            return
        if isinstance(st, ast.Continue | ast.Break):
            p.dead = True
            return
        if isinstance(st, ast.Assign):
            v = self.expr(st.value, p)
            for t in st.targets:
                self.assign(t, v, p)
            return
        if isinstance(st, ast.AnnAssign):
            if st.value is not None:
                self.assign(st.target, self.expr(st.value, p), p)
            return
        if isinstance(st, ast.AugAssign):
            self.expr(st.value, p)
            t = st.target
            if isinstance(t, ast.Name):
                if t.id not in p.names:
                    raise Unsupported(f'augmented assignment to unknown name {t.id}')
                self.write(p, p.names[t.id])
            else:
                self.write(p, self.expr(t, p))
            return
        if isinstance(st, ast.Delete):
            for t in st.targets:
                if isinstance(t, ast.Name):
                    p.names.pop(t.id, None)
                elif isinstance(t, ast.Subscript | ast.Attribute):
                    self.write(p, self.expr(t.value, p))
            return
        if isinstance(st, ast.If):
            self.expr(st.test, p)
            self.branch(p, [st.body, st.orelse])
            return
        if isinstance(st, ast.For):
            it = self.expr(st.iter, p)
            self.loop(p, lambda: self.assign(st.target, self.view(p, self.expand(p, it)), p), st.body, st.orelse)
            return
        if isinstance(st, ast.While):
            self.loop(p, lambda: self.expr(st.test, p), st.body, st.orelse)
            return
        if isinstance(st, ast.Try):
            def handler(h):
                def run():
                    if h.name:
                        p.names[h.name] = self.fresh(p)
                    self.block(h.body, p)
                return run
            # the body may be abandoned at any point: join "body (+else)" with "body, then a handler"
            self.block(st.body, p)
            dead_after_body = p.dead
            p.dead = False
            alts = [(lambda: (setattr(p, 'dead', dead_after_body), self.block(st.orelse, p)))]
            alts += [handler(h) for h in st.handlers]
            self.branch(p, alts)
            if st.finalbody:
                was = p.dead
                p.dead = False
                self.block(st.finalbody, p)
                p.dead = p.dead or was
            return
        if isinstance(st, ast.With):
            for item in st.items:
                v = self.expr(item.context_expr, p)
                if item.optional_vars is not None:
                    self.assign(item.optional_vars, self.view(p, self.expand(p, v)), p)
            self.block(st.body, p)
            return
        if isinstance(st, ast.Match):
            self.expr(st.subject, p)
            self.branch(p, [case.body for case in st.cases] + [[]])
            return
        if isinstance(st, ast.FunctionDef):
            free = {n.id for n in ast.walk(st) if isinstance(n, ast.Name)}
            v = self.view(p, [y for name in sorted(free) if name in p.names for y in self.expand(p, p.names[name])])
            p.closures[v] = ('def', st)
            p.names[st.name] = v
            return
        raise Unsupported(f'statement {type(st).__name__} (line {st.lineno})')

    def assign(self, t, v, p):
        if isinstance(t, ast.Name):
            if t.id in self.declared_global:        # rebinding a module variable: a write to module state
                p.ins.append(('write', self.global_var(p, (self.fi.file, t.id))))
                return
            p.names[t.id] = v
        elif isinstance(t, ast.Tuple | ast.List):
            for e in t.elts:
                self.assign(e.value if isinstance(e, ast.Starred) else e, self.view(p, self.expand(p, v)), p)
        elif isinstance(t, ast.Subscript):
            self.expr(t.slice, p)
            base = self.expr(t.value, p)
            p.ins.append(('write', base))
            if base in p.fields:            # the local container now also holds the assigned value
                if isinstance(t.slice, ast.Constant) and isinstance(t.slice.value, str) and '*' not in p.fields[base] and 'data' not in p.fields[base]:
                    p.fields[base][t.slice.value] = v
                else:
                    p.fields[base]['*'] = self.view(p, self.expand(p, v) + ([p.fields[base]['*']] if '*' in p.fields[base] else []))
        elif isinstance(t, ast.Attribute):
            base = self.expr(t.value, p)
            if base in p.fields:
                key = 'data' if t.attr in ('data', 'values', 'variances') else t.attr
                p.fields[base][key] = v
            else:
                p.ins.append(('write', base))
        else:
            raise Unsupported(f'assignment target {type(t).__name__}')

    # ---- expressions --------------------------------------------------------------------------------
    def expr(self, e, p):
        if isinstance(e, ast.Name):
            if e.id in p.names:
                return p.names[e.id]
            if e.id in self.tr.module_mutables(self.fi.file) or e.id in self.declared_global:
                return self.global_var(p, (self.fi.file, e.id))
            return self.fresh(p)       # module-level function / class / constant, builtin
        if isinstance(e, ast.Constant):
            return self.fresh(p)
        if isinstance(e, ast.JoinedStr):
            for val in e.values:
                if isinstance(val, ast.FormattedValue):
                    self.expr(val.value, p)
            return self.fresh(p)
        if isinstance(e, ast.Lambda):
            free = {n.id for n in ast.walk(e.body) if isinstance(n, ast.Name)}
            return self.view(p, [y for name in sorted(free) if name in p.names for y in self.expand(p, p.names[name])])
        if isinstance(e, ast.NamedExpr):
            v = self.expr(e.value, p)
            self.assign(e.target, v, p)
            return v
        if isinstance(e, ast.BinOp):
            self.expr(e.left, p)
            self.expr(e.right, p)
            return self.fresh(p)
        if isinstance(e, ast.UnaryOp):
            self.expr(e.operand, p)
            return self.fresh(p)
        if isinstance(e, ast.BoolOp):
            vs = [self.expr(x, p) for x in e.values]
            return self.view(p, [y for v in vs for y in self.expand(p, v)])
        if isinstance(e, ast.Compare):
            self.expr(e.left, p)
            for c in e.comparators:
                self.expr(c, p)
            return self.fresh(p)
        if isinstance(e, ast.IfExp):
            self.expr(e.test, p)
            a, b = self.expr(e.body, p), self.expr(e.orelse, p)
            return self.view(p, self.expand(p, a) + self.expand(p, b))
        if isinstance(e, ast.Tuple | ast.List | ast.Set):
            vs = [self.expr(x.value if isinstance(x, ast.Starred) else x, p) for x in e.elts]
            v = self.fresh(p)
            p.fields[v] = {'*': self.view(p, [y for x in vs for y in self.expand(p, x)])}
            return v
        if isinstance(e, ast.Dict):
            vs = []
            keyed = {}
            for k, val in zip(e.keys, e.values):
                if k is not None:
                    self.expr(k, p)
                x = self.expr(val, p)
                vs.append(x)
                if isinstance(k, ast.Constant) and isinstance(k.value, str) and keyed is not None:
                    keyed[k.value] = x
                elif k is not None:
                    keyed = None
                else:                       # `**other`: a record merged in
                    if keyed is not None and x in p.fields and '*' not in p.fields[x]:
                        keyed.update(p.fields[x])
                    else:
                        keyed = None
            v = self.fresh(p)
            if keyed:
                p.fields[v] = dict(keyed)
            else:
                p.fields[v] = {'*': self.view(p, [y for x in vs for y in self.expand(p, x)])}
            return v
        if isinstance(e, ast.Starred):
            return self.expr(e.value, p)
        if isinstance(e, ast.Slice):
            for x in (e.lower, e.upper, e.step):
                if x is not None:
                    self.expr(x, p)
            return self.fresh(p)
        if isinstance(e, ast.Attribute):
            if isinstance(e.value, ast.Name) and e.value.id in MODULE_NAMES and e.value.id not in p.names:
                return self.fresh(p)
            base = self.expr(e.value, p)
            if base in p.fields:
                key = 'data' if e.attr in ('data', 'values', 'variances') else e.attr
                f = p.fields[base]
                if key in f:
                    return f[key]
                if '*' in f:
                    return f['*']
                return self.view(p, self.expand(p, base))
            if e.attr in META_ATTRS:
                return self.fresh(p)
            return self.view(p, [base])         # attribute read (field or property): a view of the object
        if isinstance(e, ast.Subscript):
            self.expr(e.slice, p)
            base = self.expr(e.value, p)
            if base in p.fields:
                f = p.fields[base]
                if isinstance(e.slice, ast.Constant) and isinstance(e.slice.value, str):
                    if e.slice.value in f:
                        return f[e.slice.value]
                    return self.view(p, self.expand(p, f['*']) if '*' in f else self.expand(p, base))
                if set(f) == {'*'}:
                    return self.view(p, self.expand(p, f['*']))       # element of a local list / dict
                if 'data' not in f:                                    # a record indexed with a computed key
                    return self.view(p, self.expand(p, base))
                v = self.fresh(p)
                p.fields[v] = {k: self.view(p, self.expand(p, x)) for k, x in f.items()}
                return v
            return self.view(p, [base])
        if isinstance(e, ast.ListComp | ast.SetComp | ast.GeneratorExp | ast.DictComp):
            saved = dict(p.names)
            for g in e.generators:
                it = self.expr(g.iter, p)
                self.assign(g.target, self.view(p, self.expand(p, it)), p)
                for c in g.ifs:
                    self.expr(c, p)
            if isinstance(e, ast.DictComp):
                self.expr(e.key, p)
                v = self.expr(e.value, p)
            else:
                v = self.expr(e.elt, p)
            # evaluate the element a second time (bindings made by the first evaluation are visible)
            if isinstance(e, ast.DictComp):
                v2 = self.expr(e.value, p)
            else:
                v2 = self.expr(e.elt, p)
            p.names = saved
            out = self.fresh(p)
            p.fields[out] = {'*': self.view(p, self.expand(p, v) + self.expand(p, v2))}
            return out
        if isinstance(e, ast.Call):
            return self.call(e, p)
        if isinstance(e, ast.Await | ast.Yield | ast.YieldFrom):
            raise Unsupported(f'generator / coroutine (line {e.lineno})')
        raise Unsupported(f'expression {type(e).__name__} (line {e.lineno})')

    def kw_const(self, e, name, default):
        for k in e.keywords:
            if k.arg == name:
                if isinstance(k.value, ast.Constant):
                    return k.value.value
                return 'dynamic'
        return default

    def call(self, e, p):
        f = e.func
        argvars = []
        out_var = None
        for a in e.args:
            argvars.append(('*' if isinstance(a, ast.Starred) else None, self.expr(a, p)))
        for k in e.keywords:
            v = self.expr(k.value, p)
            if k.arg == 'out':
                out_var = v
            else:
                argvars.append((k.arg if k.arg is not None else '**', v))
        allargs = [y for _, v in argvars for y in self.expand(p, v)]

        def finish_out():
            if out_var is not None:
                self.write(p, out_var)
                return self.view(p, [out_var])
            return None

        # ---- library functions: sc.X(...), np.X(...), math.X(...)
        if isinstance(f, ast.Attribute) and self.is_module_expr(f.value, p):
            name = f.attr
            if name == 'to_unit':
                copy = self.kw_const(e, 'copy', True)
                if copy is False and argvars:
                    v = self.new(p)
                    p.ins.append(('conv', v, argvars[0][1], self.bit(e)))
                    return v
                if copy == 'dynamic':
                    raise Unsupported('to_unit with dynamic copy flag')
                return self.fresh(p)
            if name == 'values':
                return self.view(p, allargs)
            if name in ('DataArray', 'Dataset', 'DataGroup'):
                return self.view(p, allargs)
            r = finish_out()
            return r if r is not None else self.fresh(p)
        # ---- a function of another module of the package, called through the module: `beamline.beamline(...)`
        if isinstance(f, ast.Attribute) and isinstance(f.value, ast.Name) and f.value.id not in p.names:
            cnode, _ = self.tr.find(self.fi.file, f.value.id)
            if isinstance(cnode, ast.FunctionDef) is False and any(
                    isinstance(n, ast.ClassDef) and n.name == f.value.id for n in self.tr.tree(self.fi.file).body):
                mnode, _ = self.tr.find(self.fi.file, f'{f.value.id}.{f.attr}')
                if mnode is not None:               # Class.method(...) of a class of this file (static / class method)
                    callee = self.tr.info(self.fi.file, f'{f.value.id}.{f.attr}')
                    if callee.error is not None:
                        raise Unsupported(f'calls {f.value.id}.{f.attr}, which is untranslated ({callee.error})')
                    lead = [] if callee.is_static else [(None, self.fresh(p))]
                    return self.apply_callees([callee], lead + argvars, p)
        if isinstance(f, ast.Attribute) and isinstance(f.value, ast.Attribute) and isinstance(f.value.value, ast.Name) \
                and f.value.value.id not in p.names:
            pkg = self.tr.resolve_module(self.fi.file, f.value.value.id)
            if pkg is not None and pkg.endswith('__init__.py'):
                modfile = os.path.join(os.path.dirname(pkg), f.value.attr + '.py')
                if os.path.exists(os.path.join(self.tr.base, modfile)):
                    node, _ = self.tr.find(modfile, f.attr)
                    if node is not None:
                        callee = self.tr.info(modfile, f.attr)
                        if callee.error is not None:
                            raise Unsupported(f'calls {f.value.attr}.{f.attr}, which is untranslated ({callee.error})')
                        return self.apply_callees([callee], argvars, p)
        if isinstance(f, ast.Attribute) and isinstance(f.value, ast.Name) and f.value.id not in p.names:
            modfile = self.tr.resolve_module(self.fi.file, f.value.id)
            if modfile is not None:
                node, _ = self.tr.find(modfile, f.attr)
                if node is not None:
                    callee = self.tr.info(modfile, f.attr)
                    if callee.error is not None:
                        raise Unsupported(f'calls {f.value.id}.{f.attr}, which is untranslated ({callee.error})')
                    return self.apply_callees([callee], argvars, p)
        # ---- methods
        if isinstance(f, ast.Attribute):
            base = self.expr(f.value, p)
            name = f.attr
            if name in ('to', 'astype'):
                copy = self.kw_const(e, 'copy', True)
                if copy is False:
                    v = self.new(p)
                    src = p.fields[base].get('data', p.fields[base].get('*', base)) if base in p.fields else base
                    p.ins.append(('conv', v, src, self.bit(e)))
                    return v
                if copy == 'dynamic':
                    raise Unsupported(f'.{name} with dynamic copy flag')
                return self.fresh(p)
            if name == 'copy':
                deep = self.kw_const(e, 'deep', True)
                if deep is False:
                    # a shallow copy: new object with its own coords / masks dicts, whose entries are the original buffers
                    v = self.fresh(p)
                    src = self.expand(p, base)
                    coords, masks = self.fresh(p), self.fresh(p)
                    p.fields[coords] = {'*': self.view(p, src)}
                    p.fields[masks] = {'*': self.view(p, src)}
                    p.fields[v] = {'data': self.view(p, src), 'coords': coords, 'masks': masks, '*': self.view(p, src)}
                    return v
                if deep == 'dynamic':
                    raise Unsupported('copy with dynamic deep flag')
                return self.fresh(p)
            if name == 'pop' and base in p.fields and e.args and isinstance(e.args[0], ast.Constant) and e.args[0].value in p.fields[base]:
                p.ins.append(('write', base))
                return p.fields[base].pop(e.args[0].value)
            if name in MUTATING_METHODS:
                p.ins.append(('write', base))
                if base in p.fields and allargs:
                    f_ = p.fields[base]
                    f_['*'] = self.view(p, allargs + ([f_['*']] if '*' in f_ else []))
                return self.view(p, self.expand(p, base) + allargs)
            # a method of the same class
            if isinstance(f.value, ast.Name) and f.value.id == 'self' and self.fi.cls and not self.fi.is_static:
                node, _ = self.tr.find(self.fi.file, f'{self.fi.cls}.{name}')
                if node is not None:
                    callee = self.tr.info(self.fi.file, f'{self.fi.cls}.{name}')
                    if callee.error is not None:
                        raise Unsupported(f'calls self.{name}, which is untranslated ({callee.error})')
                    return self.apply_callees([callee], [(None, base)] + argvars, p)
            if name in VIEW_METHODS:
                keeps_args = name in ('get', 'assign_coords', 'assign_masks', 'setdefault')
                return self.view(p, self.expand(p, base) + (allargs if keeps_args else []))
            if name in PURE_METHODS:
                r = finish_out()
                return r if r is not None else self.fresh(p)
            # a method of some class of the package, called on an object (argument, field, element …)
            cands = self.tr.methods(name)
            if cands:
                callees = []
                for file, qual in cands:
                    c = self.tr.info(file, qual)
                    if c.error is not None:
                        raise Unsupported(f'calls .{name}, candidate {qual} is untranslated ({c.error})')
                    callees.append(c)
                return self.apply_callees(callees, [(None, base)] + argvars, p)
            if name in CALLABLE_ATTRS:          # a field that holds an object with __call__ (a model)
                return self.call_object(self.view(p, [base]), name, argvars, e, p)
            raise Unsupported(f'unknown method .{name} (line {e.lineno})')
        # ---- plain names
        if isinstance(f, ast.Name):
            name = f.id
            if name == 'cls' and self.fi.params[:1] == ['cls']:
                return self.record(p, argvars)
            if name in p.names:
                return self.call_object(p.names[name], name, argvars, e, p)
            if name in PURE_BUILTINS or name in OPAQUE_PURE:
                return self.fresh(p)
            if name in VIEW_BUILTINS:
                return self.view(p, allargs)
            if name in SHALLOW_BUILTINS:
                v = self.fresh(p)
                if allargs:
                    p.fields[v] = {'*': self.view(p, allargs)}
                return v
            if name == 'deepcopy':
                return self.fresh(p)
            if name == 'partial' and argvars:
                target = e.args[0]
                v = self.view(p, [y for _, a in argvars[1:] for y in self.expand(p, a)])
                if isinstance(target, ast.Name):
                    t = self.tr.resolve_callee(self.fi.file, target.id)
                    if t is not None:
                        p.closures[v] = ('partial', t, [a for _, a in argvars[1:]])
                return v
            if name == 'super':
                return self.view(p, [p.names['self']] if 'self' in p.names else [])
            target = self.tr.resolve_callee(self.fi.file, name)
            if target is not None:
                callee = self.tr.info(*target)
                if callee.error is not None:
                    raise Unsupported(f'calls {name}, which is untranslated ({callee.error})')
                return self.apply_callees([callee], argvars, p)
            if name.lstrip('_')[:1].isupper() or name == 'cls':
                return self.record(p, argvars)      # constructor of a record / exception: holds its arguments
            raise Unsupported(f'unknown function {name} (line {e.lineno})')
        # ---- call of the value of an expression: an object with __call__
        obj = self.expr(f, p)
        return self.call_object(obj, '<expression>', argvars, e, p)

    def call_object(self, obj, name, argvars, e, p):
        """`obj(args)`: a closure made in this function, a whitelisted callable parameter, or an object of the package
        with `__call__`"""
        cl = p.closures.get(obj)
        if cl is not None and cl[0] == 'partial':
            callee = self.tr.info(*cl[1])
            if callee.error is not None:
                raise Unsupported(f'calls partial of {cl[1][1]}, which is untranslated ({callee.error})')
            return self.apply_callees([callee], [(None, a) for a in cl[2]] + argvars, p)
        if cl is not None and cl[0] == 'def':
            node = cl[1]
            params = [a.arg for a in node.args.posonlyargs + node.args.args]
            saved = dict(p.names)
            pos = 0
            rest = []
            for nm, v in argvars:
                if nm is None and pos < len(params):
                    p.names[params[pos]] = v
                    pos += 1
                elif nm in params:
                    p.names[nm] = v
                else:
                    rest.append(v)
            for extra in ([node.args.vararg.arg] if node.args.vararg else []) + ([node.args.kwarg.arg] if node.args.kwarg else []):
                p.names[extra] = self.view(p, [y for v in rest for y in self.expand(p, v)])
            before = len(self.returned)
            was_dead = p.dead
            self.block(node.body, p)
            p.dead = was_dead
            res = self.returned[before:]
            del self.returned[before:]
            p.names = saved
            return self.view(p, res)
        wl = CALLABLE_PARAMS.get((self.fi.file, self.fi.qual), {})
        if name in wl and name in self.fi.params:
            callee = self.tr.info(*wl[name])
            if callee.error is not None:
                raise Unsupported(f'callable parameter {name}: target is untranslated ({callee.error})')
            nbound = len(callee.params) - len(argvars)
            if nbound < 0:
                raise Unsupported(f'callable parameter {name}: more arguments than parameters of the target')
            # the first `nbound` parameters of the target are bound inside the callable object itself
            return self.apply_callees([callee], [(None, obj)] * nbound + argvars, p)
        cands = self.tr.methods('__call__')
        if cands:
            callees = []
            for file, qual in cands:
                c = self.tr.info(file, qual)
                if c.error is not None:
                    raise Unsupported(f'calls an object, candidate {qual} is untranslated ({c.error})')
                callees.append(c)
            return self.apply_callees(callees, [(None, obj)] + argvars, p)
        raise Unsupported(f'call of a local object {name} (line {e.lineno})')

    def record(self, p, argvars):
        """a new object that stores references to its constructor arguments (keyword arguments as named fields)"""
        v = self.fresh(p)
        f = {}
        rest = []
        for name, a in argvars:
            if name not in (None, '*', '**'):
                f[name] = a
            else:
                rest.append(a)
        if rest or not f:
            f['*'] = self.view(p, [y for a in rest for y in self.expand(p, a)])
        p.fields[v] = f
        return v

    def is_module_expr(self, v, p):
        if isinstance(v, ast.Name):
            return v.id in MODULE_NAMES and v.id not in p.names
        if isinstance(v, ast.Attribute):
            return self.is_module_expr(v.value, p)
        return False

    def apply_callees(self, callees, argvars, p):
        """the effect of a call that may go to any of `callees` (dynamic dispatch): union of their summaries"""
        written, aliased = [], []
        last_bound = {}
        for callee in callees:
            params = callee.params
            bound = {}
            pos = 0
            extra = []
            for name, v in argvars:
                if name is None:
                    if pos < callee.npos:
                        bound.setdefault(pos, []).append(v)
                    elif callee.vararg:
                        bound.setdefault(params.index(callee.vararg), []).append(v)
                    else:
                        extra.append(v)
                    pos += 1
                elif name in ('*', '**'):
                    extra.append(v)
                elif name in params:
                    bound.setdefault(params.index(name), []).append(v)
                elif callee.kwarg:
                    bound.setdefault(params.index(callee.kwarg), []).append(v)
                else:
                    extra.append(v)
            for v in extra:                     # unpacked arguments may land in any (real) parameter
                for j in range(callee.nreal):
                    bound.setdefault(j, []).append(v)
            for gi, gkey in enumerate(callee.globals):      # module state used by the callee is module state here too
                bound.setdefault(callee.nreal + gi, []).append(self.global_var(p, gkey))
            for j in callee.allowed or []:
                written += bound.get(j, [])
            for j in callee.ret_alias or []:
                aliased += bound.get(j, [])
            last_bound = bound
        for v in dict.fromkeys(written):
            self.write(p, v)
        flat = self.view(p, [y for v in dict.fromkeys(aliased) for y in self.expand(p, v)])
        if callees and all(c.ret_container for c in callees) and not (len(callees) == 1 and callees[0].ret_keys):
            out = self.fresh(p)             # a container made by the callee; what it holds may alias the arguments
            p.fields[out] = {'*': flat}
            return out
        if len(callees) == 1 and callees[0].ret_keys:
            callee = callees[0]
            out = self.fresh(p)
            p.fields[out] = {}
            for k, js in callee.ret_keys.items():
                p.fields[out][k] = self.view(p, [y for j in js for v in last_bound.get(j, []) for y in self.expand(p, v)])
            return out
        return flat


# ---- rendering ----------------------------------------------------------------------------------------

def lean_ins(ins):
    op = ins[0]
    if op == 'fresh':
        return f'.fresh {ins[1]}'
    if op == 'view':
        return f'.view {ins[1]} [{", ".join(str(x) for x in ins[2])}]'
    if op == 'conv':
        return f'.conv {ins[1]} {ins[2]} {ins[3]}'
    return f'.write {ins[1]}'


def ident(file, qual, k):
    s = (file[:-3] + '.' + qual).replace('/', '.').replace('.', '_')
    return f'k_{s}' + (f'_p{k}' if k else '')


def analyse(repo):
    tr = Translator(repo)
    done, failed = [], []
    for file, qual, public in TARGETS:
        fi = tr.info(file, qual, public)
        fi.public = public
        if fi.error is not None:
            failed.append((file, qual, fi.error))
        else:
            done.append(fi)
    return done, failed


def render(repo):
    done, failed = analyse(repo)
    out = [
        '/- GENERATED by harness/translate/kernels.py from the function bodies under src/scippneutron — do not edit. -/',
        'import ScnVerif.Model.Heap',
        'namespace ScnVerif.Gen.Kernels',
        'open ScnVerif.Heap',
        '',
    ]
    names = []
    for fi in done:
        for k, prog in enumerate(fi.paths):
            nm = ident(fi.file, fi.qual, k)
            names.append(nm)
            qn = f'{fi.file}:{fi.qual}' + (f' path {k}' if len(fi.paths) > 1 else '')
            out.append(f'/-- `{qn}` ({", ".join(fi.params)}) -/')
            out.append(f'def {nm} : Kernel :=')
            out.append(f'  {{ name := [{", ".join(str(b) for b in qn.encode())}], nargs := {len(fi.params)}, nreal := {fi.nreal}, bits := {fi.bits},')
            out.append(f'    allowed := [{", ".join(str(j) for j in fi.allowed)}], isPublic := {"true" if fi.public else "false"}, '
                       f'retContainer := {"true" if fi.ret_container else "false"},')
            ret = fi.rets[k]
            rets = [] if ret is None else [(ret, fi.ret_alias)]
            rets += [(fi.key_vars[key], fi.ret_keys[key]) for key in sorted(fi.key_vars)]
            out.append('    rets := [' + ', '.join(f'({v}, [{", ".join(str(j) for j in js)}])' for v, js in rets) + '],')
            body = ',\n      '.join(lean_ins(i) for i in prog)
            out.append(f'    ir := [\n      {body}] }}')
            out.append('')
    chunks = [names[i:i + 40] for i in range(0, len(names), 40)]
    for i, ch in enumerate(chunks):
        out.append(f'def all_{i} : List Kernel := [{", ".join(ch)}]')
    out.append('def all : List Kernel := ' + (' ++ '.join(f'all_{i}' for i in range(len(chunks))) or '[]'))
    out.append('')
    out.append('/-- functions the translator could not express ("dynamic only") -/')
    out.append('def untranslated : List String := [')
    out.append(',\n'.join('  "' + f'{file}:{qual}: {err}'.replace('\\', '/').replace('"', "'") + '"' for file, qual, err in failed))
    out.append(']')
    out.append('end ScnVerif.Gen.Kernels')
    return '\n'.join(out) + '\n'


def translate(repo: str) -> list[str]:
    path = os.path.join(GEN_DIR, 'Kernels.lean')
    return [path] if write_if_changed(path, render(repo)) else []


if __name__ == '__main__':
    import sys

    repo = sys.argv[1] if len(sys.argv) > 1 else '/repo'
    done, failed = analyse(repo)
    for fi in done:
        if fi.public and not fi.ret_container and any(j >= fi.nreal for j in (fi.ret_alias or [])):
            print(f'RETURNS-MODULE-STATE {fi.file}:{fi.qual} may return {[fi.globals[j - fi.nreal] for j in fi.ret_alias if j >= fi.nreal]}')
        if fi.globals or fi.cached:
            print(f'GLOBAL-STATE {fi.file}:{fi.qual} uses {fi.globals} writes {sorted(fi.global_writes)} lru_cache={fi.cached}')
        print(f'OK   {fi.file}:{fi.qual} paths={len(fi.paths)} bits={fi.bits} allowed={fi.allowed} ret_alias={fi.ret_alias} public={fi.public} '
              f'instrs={sum(len(p) for p in fi.paths)}')
    for f in failed:
        print('FAIL', *f)
    print(translate(repo))
