"""Helpers shared by the translators (source -> lean/ScnVerif/Gen/*.lean)."""
from __future__ import annotations

import os

VERIF = os.path.dirname(os.path.dirname(os.path.dirname(os.path.abspath(__file__))))
GEN_DIR = os.path.join(VERIF, 'lean', 'ScnVerif', 'Gen')


def lean_str(s: str) -> str:
    """A Lean string literal for ``s`` (ASCII-escaped so the file is plain ASCII)."""
    out = ['"']
    for ch in s:
        o = ord(ch)
        if ch == '"':
            out.append('\\"')
        elif ch == '\\':
            out.append('\\\\')
        elif ch == '\n':
            out.append('\\n')
        elif ch == '\t':
            out.append('\\t')
        elif ch == '\r':
            out.append('\\r')
        elif 32 <= o < 127:
            out.append(ch)
        else:
            out.append('\\u{%x}' % o)
    out.append('"')
    return ''.join(out)


def write_if_changed(path: str, text: str) -> bool:
    """Write ``text`` to ``path`` unless it already holds exactly that. Returns True if written."""
    try:
        with open(path, encoding='utf-8') as f:
            if f.read() == text:
                return False
    except FileNotFoundError:
        pass
    os.makedirs(os.path.dirname(path), exist_ok=True)
    with open(path, 'w', encoding='utf-8') as f:
        f.write(text)
    return True


def chunked(seq, n):
    for i in range(0, len(seq), n):
        yield seq[i : i + n]
