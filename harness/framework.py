"""Common machinery of ./check: translate -> prove -> correspond -> oracle -> verdict -> evidence.

A property module (harness/props/cXX.py) defines

    PROP = 'C20'
    LEAN_TARGETS = ['ScnVerif.Props.C20']       # lake targets holding the property theorems
    PROPS_FILE = 'ScnVerif/Props/C20.lean'      # file whose `theorem`s are the obligations
    TRANSLATORS = [callable(repo) -> [changed files]]
    ASSUMPTIONS = [...]; TRUSTED = [...]; RULE = '...'
    def correspond(ctx): ...    # implementation vs Lean model (via ctx.driver); ctx.disagree(...)
    def oracle(ctx, deep): ...  # property statement evaluated on the real code; ctx.violation(...)
    def replay(ctx, witness): ...  (optional)

See DESIGN.md section 2.1 for the verdict rules implemented in `run_check`.
"""
from __future__ import annotations

import fcntl
import hashlib
import importlib
import json
import os
import random
import re
import subprocess
import sys
import time
import traceback

VERIF = os.path.dirname(os.path.dirname(os.path.abspath(__file__)))
LEAN = os.path.join(VERIF, 'lean')
ALLOWED_AXIOMS = {'propext', 'Classical.choice', 'Quot.sound'}
FORBIDDEN = re.compile(
    r'\bsorry\b|\badmit\b|^axiom\s|native_decide|bv_decide|implemented_by|\bunsafe\s|maxHeartbeats\s+0'
)
BASE_TRUSTED = [
    'Lean 4.33.0 kernel (thorough tier: re-checked by leanchecker)',
    'axioms propext, Classical.choice, Quot.sound only (audited by #print axioms on every property theorem, every run)',
    'Mathlib v4.33.0 modules imported by the proof files',
    'the hand-written Lean model (lean/ScnVerif/Model) is a transcription of the Python code; tied to /repo by the correspondence run of this check',
    'the translator (harness/translate) and the correspondence harness (harness/props) including generators',
]


class Ctx:
    def __init__(self, prop: str, tier: str, seed: int, repo: str):
        self.prop = prop
        self.tier = tier
        self.seed = seed
        self.repo = repo
        self.rng = random.Random(seed)
        self.t0 = time.time()
        self.evaluations = 0
        self._nontrivial: set = set()
        self.samples: list = []
        self.hist: dict[str, int] = {}
        self.disagreements: list[dict] = []
        self.violations: list[dict] = []
        self.notes: list[str] = []
        self.exhaustive: bool | None = None
        self.driver_ok = True
        self.driver_calls = 0
        self.driver_lines = 0

    # ---- bookkeeping -------------------------------------------------------------------
    @property
    def quick(self) -> bool:
        return self.tier == 'quick'

    def n(self, quick: int, thorough: int) -> int:
        return quick if self.quick else thorough

    def count(self, key: str, k: int = 1) -> None:
        self.hist[key] = self.hist.get(key, 0) + k

    def case(self, ident, nontrivial: bool = True, sample=None) -> None:
        """Record one evaluated case. `ident` is a hashable canonical identity of the case."""
        self.evaluations += 1
        if nontrivial:
            h = hashlib.blake2b(repr(ident).encode(), digest_size=8).digest()
            self._nontrivial.add(h)
        if sample is not None and (len(self.samples) < 6 or (len(self.samples) < 12 and self.rng.random() < 0.01)):
            self.samples.append(sample)

    def disagree(self, case, impl, model, note: str = '') -> None:
        if len(self.disagreements) < 200:
            self.disagreements.append({'case': case, 'impl': impl, 'model': model, 'note': note})
        self.count('disagreement')

    def violation(self, key: str, what: str, witness) -> None:
        """A concrete input on which the *real code* breaks the property. `key` is a specific,
        stable class identifier matched against known_findings.jsonl."""
        # keep at most 5 witnesses per key so that a frequent (e.g. known) class cannot crowd out another
        self.count('violation:' + key)
        if self.hist['violation:' + key] <= 5 and len(self.violations) < 400:
            self.violations.append({'key': key, 'what': what, 'witness': witness})

    def note(self, msg: str) -> None:
        self.notes.append(msg)

    # ---- Lean driver -------------------------------------------------------------------
    def driver(self, lines: list[str]) -> list[str]:
        """Run the Lean model on a batch of protocol lines; one output line per input line."""
        if not lines:
            return []
        exe = os.path.join(LEAN, '.lake', 'build', 'bin', 'scn_driver')
        data = ('\n'.join(lines) + '\n').encode()
        if os.path.exists(exe) and self.driver_ok:
            cmd = [exe]
        else:
            cmd = ['lake', 'env', 'lean', '--run', 'Driver.lean']
        p = subprocess.run(cmd, input=data, capture_output=True, cwd=LEAN, timeout=3600)
        out = p.stdout.decode().split('\n')
        if out and out[-1] == '':
            out.pop()
        self.driver_calls += 1
        self.driver_lines += len(lines)
        if p.returncode != 0 or len(out) != len(lines):
            raise RuntimeError(
                f'driver failed rc={p.returncode} in={len(lines)} out={len(out)} stderr={p.stderr.decode()[:500]}'
            )
        return out


# ---- Lean build / audit -----------------------------------------------------------------

class BuildLock:
    def __enter__(self):
        os.makedirs(os.path.join(LEAN, '.lake'), exist_ok=True)
        self.f = open(os.path.join(LEAN, '.lake', 'verif.lock'), 'w')
        fcntl.flock(self.f, fcntl.LOCK_EX)
        return self

    def __exit__(self, *a):
        fcntl.flock(self.f, fcntl.LOCK_UN)
        self.f.close()


def theorem_names(props_file: str) -> list[tuple[str, int]]:
    """(qualified name, line) of every `theorem` in a Props file (namespaces tracked)."""
    names = []
    ns: list[str] = []
    with open(os.path.join(LEAN, props_file), encoding='utf-8') as f:
        in_comment = 0
        for i, line in enumerate(f, 1):
            s = line.strip()
            # crude block-comment tracking
            in_comment += s.count('/-') - s.count('-/')
            if in_comment > 0 or s.startswith('--'):
                continue
            m = re.match(r'namespace\s+(\S+)', s)
            if m:
                ns.append(m.group(1))
                continue
            m = re.match(r'end\s+(\S+)', s)
            if m and ns and ns[-1] == m.group(1):
                ns.pop()
                continue
            m = re.match(r'(?:@\[[^\]]*\]\s*)?(?:private\s+|protected\s+)?theorem\s+(\S+)', s)
            if m:
                names.append(('.'.join(ns + [m.group(1)]), i))
    return names


def lake_build(targets: list[str], timeout: int = 3000) -> tuple[bool, str]:
    p = subprocess.run(
        ['lake', 'build', *targets], cwd=LEAN, capture_output=True, text=True, timeout=timeout
    )
    return p.returncode == 0, p.stdout + p.stderr


def failing_theorems(log: str, props_file: str, thms: list[tuple[str, int]]) -> list[str]:
    """Map `error: <file>:<line>:` positions of a failed build to the enclosing theorem."""
    bad = set()
    base = os.path.basename(props_file)
    for m in re.finditer(r'error: (\S+?):(\d+):(\d+)', log):
        if os.path.basename(m.group(1)) != base:
            bad.add(f'<{m.group(1)}:{m.group(2)}>')
            continue
        line = int(m.group(2))
        owner = None
        for name, ln in thms:
            if ln <= line:
                owner = name
        bad.add(owner or f'<{base}:{line}>')
    return sorted(bad)


def audit_axioms(prop: str, module: str, thms: list[str]) -> tuple[dict[str, list[str]], str]:
    """#print axioms for every property theorem; returns {theorem: [axioms]}."""
    d = os.path.join(LEAN, 'ScnVerif', 'Audit')
    os.makedirs(d, exist_ok=True)
    path = os.path.join(d, f'{prop}.lean')
    text = f'import {module}\n' + ''.join(f'#print axioms {t}\n' for t in thms)
    with open(path, 'w') as f:
        f.write(text)
    p = subprocess.run(
        ['lake', 'env', 'lean', path], cwd=LEAN, capture_output=True, text=True, timeout=1800
    )
    out = p.stdout + p.stderr
    res: dict[str, list[str]] = {}
    for m in re.finditer(r"'([^']+)' depends on axioms: \[([^\]]*)\]", out, re.S):
        res[m.group(1)] = [a.strip() for a in m.group(2).replace('\n', ' ').split(',') if a.strip()]
    for m in re.finditer(r"'([^']+)' does not depend on any axioms", out):
        res[m.group(1)] = []
    return res, out


def grep_forbidden() -> list[str]:
    hits = []
    for root, _, files in os.walk(os.path.join(LEAN, 'ScnVerif')):
        for fn in files:
            if not fn.endswith('.lean'):
                continue
            path = os.path.join(root, fn)
            depth = 0
            with open(path, encoding='utf-8') as f:
                for i, line in enumerate(f, 1):
                    code = line
                    # strip block comments (crudely, line-wise) and line comments
                    if depth > 0:
                        if '-/' in code:
                            code = code.split('-/', 1)[1]
                            depth -= 1
                        else:
                            continue
                    while '/-' in code:
                        pre, post = code.split('/-', 1)
                        if '-/' in post:
                            code = pre + post.split('-/', 1)[1]
                        else:
                            code = pre
                            depth += 1
                            break
                    code = code.split('--', 1)[0]
                    if FORBIDDEN.search(code):
                        hits.append(f'{os.path.relpath(path, LEAN)}:{i}: {line.strip()[:80]}')
    for fn in ('Driver.lean',):
        pass
    return hits


# ---- known findings ---------------------------------------------------------------------

def load_findings() -> list[dict]:
    path = os.path.join(VERIF, 'known_findings.jsonl')
    out = []
    if os.path.exists(path):
        with open(path) as f:
            for line in f:
                line = line.strip()
                if line and not line.startswith('#'):
                    out.append(json.loads(line))
    return out


# ---- main flow --------------------------------------------------------------------------

def tree_identity(repo: str) -> dict:
    """Which tree this run examined: path, HEAD, and a digest of the uncommitted difference to HEAD (so
    an evidence file produced against a modified tree can be told from one for the unchanged tree)."""
    def g(*a):
        try:
            return subprocess.run(['git', '-C', repo, *a], capture_output=True, text=True, timeout=60).stdout
        except Exception:  # noqa: BLE001
            return ''
    diff = g('diff', 'HEAD', '--', 'src')
    return {
        'repo': repo,
        'head': g('rev-parse', 'HEAD').strip(),
        'uncommitted_src_diff_blake2b': hashlib.blake2b(diff.encode(), digest_size=8).hexdigest() if diff else None,
        'uncommitted_src_files': [l[3:] for l in g('status', '--porcelain', '--', 'src').splitlines()][:20],
    }


def write_evidence(mod, ctx: Ctx, coverage: dict, nviol: int) -> None:
    os.makedirs(os.path.join(VERIF, 'evidence'), exist_ok=True)
    coverage = dict(coverage, tree=tree_identity(ctx.repo))
    ev = {
        'property_id': ctx.prop,
        'tier': ctx.tier,
        'seed': ctx.seed,
        'level': 'proof',
        'coverage': coverage,
        'assumptions': list(getattr(mod, 'ASSUMPTIONS', [])),
        'wall_s': round(time.time() - ctx.t0, 2),
        'violations': nviol,
    }
    with open(os.path.join(VERIF, 'evidence', f'{ctx.prop}.json'), 'w') as f:
        json.dump(ev, f, indent=1, default=str)
        f.write('\n')


def write_replay(ctx: Ctx, payload: dict) -> str:
    os.makedirs(os.path.join(VERIF, 'replays'), exist_ok=True)
    blob = json.dumps(payload, sort_keys=True, default=str)
    h = hashlib.blake2b(blob.encode(), digest_size=6).hexdigest()
    rel = f'replays/{ctx.prop}-{h}.json'
    with open(os.path.join(VERIF, rel), 'w') as f:
        json.dump(payload, f, indent=1, default=str)
        f.write('\n')
    return rel


def run_check(prop: str, tier: str, seed: int, repo: str, replay: str | None = None) -> int:
    mod = importlib.import_module(f'harness.props.{prop.lower()}')
    ctx = Ctx(prop, tier, seed, repo)
    if replay:
        with open(replay) as f:
            payload = json.load(f)
        fn = getattr(mod, 'replay', None)
        if fn is None:
            print(json.dumps(payload, indent=1))
            return 0
        still = fn(ctx, payload)
        print('replay: property', 'STILL VIOLATED' if still else 'holds on this witness')
        return 1 if still else 0

    props_file = mod.PROPS_FILE
    module = props_file[:-5].replace('/', '.')
    infra_error = None
    proof_log = ''
    changed: list[str] = []
    with BuildLock():
        # 1. translate
        for tr in getattr(mod, 'TRANSLATORS', []):
            changed += tr(repo)
        # 2. prove
        thms = theorem_names(props_file)
        ok_proofs, log = lake_build(list(mod.LEAN_TARGETS))
        proof_log = log
        failing: list[str] = []
        if not ok_proofs:
            failing = failing_theorems(log, props_file, thms)
            if not failing:
                failing = ['<build>']
        ok_driver, dlog = lake_build(['scn_driver'])
        ctx.driver_ok = ok_driver
        if not ok_driver:
            ctx.note('driver executable failed to build: ' + dlog[-400:])
        # 3. audit
        axioms: dict[str, list[str]] = {}
        audit_out = ''
        if ok_proofs:
            axioms, audit_out = audit_axioms(prop, module, [t for t, _ in thms])
        forbidden = grep_forbidden()
    bad_axioms = {t: a for t, a in axioms.items() if not set(a) <= ALLOWED_AXIOMS}
    discharged = [t for t, _ in thms if t in axioms and t not in bad_axioms] if ok_proofs else [
        t for t, _ in thms if t not in failing
    ]
    if ok_proofs and len(axioms) != len(thms):
        missing = [t for t, _ in thms if t not in axioms]
        failing += [f'<audit-missing:{t}>' for t in missing]
    proof_broken = bool(failing) or bool(bad_axioms) or bool(forbidden)

    # thorough: independent re-check of the compiled proofs
    leanchecker = None
    if tier == 'thorough' and ok_proofs:
        try:
            p = subprocess.run(
                ['lake', 'env', 'leanchecker', module], cwd=LEAN, capture_output=True, text=True, timeout=3000
            )
            leanchecker = p.returncode == 0
            if not leanchecker:
                proof_broken = True
                failing.append('<leanchecker:' + (p.stdout + p.stderr)[-300:] + '>')
        except Exception as e:  # noqa: BLE001
            leanchecker = None
            ctx.note(f'leanchecker not run: {e!r}')

    # 4. correspondence + oracle
    corr_error = None
    try:
        mod.correspond(ctx)
    except Exception:  # noqa: BLE001
        corr_error = traceback.format_exc()
    oracle_error = None
    try:
        mod.oracle(ctx, False)
    except Exception:  # noqa: BLE001
        oracle_error = traceback.format_exc()
    broken = proof_broken or bool(ctx.disagreements)
    if broken and not ctx.violations and oracle_error is None:
        try:
            mod.oracle(ctx, True)  # deep failing-input search
        except Exception:  # noqa: BLE001
            oracle_error = traceback.format_exc()
    if corr_error or oracle_error:
        infra_error = (corr_error or '') + (oracle_error or '')

    # 5. verdict
    findings = load_findings()
    known = {f['key']: f for f in findings if f.get('property') == prop and f.get('status') == 'known'}
    out_lines = []
    new_viol = []
    seen_known = set()
    for v in ctx.violations:
        if v['key'] in known:
            if v['key'] not in seen_known:
                seen_known.add(v['key'])
                out_lines.append(f"KNOWN-FINDING: property={prop} {known[v['key']]['what']}")
        else:
            new_viol.append(v)
    rc = 0
    if new_viol:
        # one replay per distinct key
        done = set()
        for v in new_viol:
            if v['key'] in done:
                continue
            done.add(v['key'])
            rel = write_replay(ctx, {
                'property': prop, 'key': v['key'], 'what': v['what'], 'witness': v['witness'],
                'seed': seed, 'tier': tier,
                'replay_cmd': f'./check {prop} --replay <this file>',
            })
            out_lines.append(f'VIOLATION property={prop} replay={rel}')
        rc = 1
    elif broken:
        rel = write_replay(ctx, {
            'property': prop, 'key': 'no-failing-input-found',
            'what': 'proof obligation or correspondence no longer checks; the failing-input search found no concrete input',
            'failing_theorems': failing, 'bad_axioms': bad_axioms, 'forbidden_tokens': forbidden,
            'disagreements': ctx.disagreements[:20], 'regenerated': changed,
            'build_log_tail': proof_log[-3000:] if failing else '',
            'seed': seed, 'tier': tier,
        })
        out_lines.append(f'VIOLATION property={prop} replay={rel} no-failing-input-found')
        rc = 1
    if infra_error and rc == 0:
        rc = 2

    coverage = {
        'obligations': len(thms),
        'discharged': len(discharged),
        'checker_cmd': f'cd lean && lake build {" ".join(mod.LEAN_TARGETS)} && lake env lean ScnVerif/Audit/{prop}.lean'
        + (f' && lake env leanchecker {module}' if tier == 'thorough' else ''),
        'trusted_base': BASE_TRUSTED + list(getattr(mod, 'TRUSTED', [])),
        'theorems': [t for t, _ in thms],
        'failing_theorems': failing,
        'axioms_used': sorted({a for v in axioms.values() for a in v}),
        'regenerated_files': [os.path.relpath(c, VERIF) for c in changed],
        'leanchecker_ok': leanchecker,
        'evaluations': ctx.evaluations,
        'distinct_nontrivial': len(ctx._nontrivial),
        'rule': getattr(mod, 'RULE', ''),
        'samples': ctx.samples[:12] or ['(no cases)'],
        'histogram': dict(sorted(ctx.hist.items())),
        'disagreements_checked': len(ctx.disagreements),
        'traces_validated_against_impl': ctx.evaluations,
        'driver_lines': ctx.driver_lines,
        'known_findings_seen': sorted(seen_known),
        'notes': ctx.notes,
    }
    if ctx.exhaustive is not None:
        coverage['exhaustive'] = ctx.exhaustive
    write_evidence(mod, ctx, coverage, len(new_viol) + (1 if (broken and not new_viol) else 0))
    for l in out_lines:
        print(l)
    if infra_error:
        print('INFRASTRUCTURE ERROR:\n' + infra_error, file=sys.stderr)
    print(
        f'{prop} {tier}: obligations={len(thms)} discharged={len(discharged)} evaluations={ctx.evaluations} '
        f'distinct={len(ctx._nontrivial)} disagreements={len(ctx.disagreements)} violations={len(new_viol)} '
        f'known={len(seen_known)} wall={time.time() - ctx.t0:.1f}s rc={rc}'
    )
    return rc
